#!/bin/bash
# seedtool.sh verify <ID> <name>   : confirm an agent's seeded change in its scratch worktree /tmp/seed/<ID> and store it as /verif/seeded/<name>
# seedtool.sh run <name> [tier]    : apply /verif/seeded/<name>/patch.diff to /repo, run the property's check, revert
export GOFLAGS=-mod=mod GOPROXY=off
set -u
cmd=$1
if [ "$cmd" = verify ]; then
  id=$2; name=$3; base=${4:-/tmp/seed}; wt=$base/$id
  cd $wt || exit 2
  [ -f SEED/patch.diff ] || { echo "no SEED/patch.diff"; exit 2; }
  demo=$(python3 -c "import json;print(json.load(open('SEED/meta.json'))['demo_cmd'])")
  echo "== demo cmd: $demo"
  # state: change + demo applied. 1) suite passes with change (demo excluded by -skip of its name is hard; move demo aside)
  git checkout -q -- . ; git clean -fdq -e SEED
  git apply SEED/patch.diff || { echo "patch does not apply"; exit 2; }
  go build ./... || { echo "BUILD FAILS with change"; exit 1; }
  if go test -vet=off -count=1 $(go list ./... | grep -v /SEED) > /tmp/seed/_suite_$id.log 2>&1; then echo "suite: PASS with change"; else echo "suite: FAIL with change"; grep -E "^(FAIL|---)" /tmp/seed/_suite_$id.log | head; fi
  for p in $(cat SEED/demo_path.txt); do mkdir -p $(dirname $p); cp SEED/$(basename $p) $p || echo "demo file missing: $p"; done
  if bash -c "$demo" > /tmp/seed/_demo_with_$id.log 2>&1; then echo "demo: PASSES with change (BAD)"; else echo "demo: fails with change (good)"; fi
  git apply -R SEED/patch.diff
  if bash -c "$demo" > /tmp/seed/_demo_without_$id.log 2>&1; then echo "demo: passes without change (good)"; else echo "demo: FAILS without change (BAD)"; tail -5 /tmp/seed/_demo_without_$id.log; fi
  rm -rf /verif/seeded/$name; mkdir -p /verif/seeded/$name/demo && cp SEED/patch.diff SEED/meta.json SEED/demo_path.txt /verif/seeded/$name/
  for p in $(cat SEED/demo_path.txt); do cp SEED/$(basename $p) /verif/seeded/$name/demo/$(basename $p).txt; done
  exit 0
fi
if [ "$cmd" = run ]; then
  # seedtool.sh run <name> [tier] [checkId]: apply the seeded change to a scratch copy of /repo
  # (never to /repo itself), run the check there, replay the first artefact on the changed and
  # on an unchanged copy.
  name=$2; tier=${3:-quick}
  id=$(python3 -c "import json;print(json.load(open('/verif/seeded/$name/meta.json'))['property'])")
  chk=${4:-$id}
  S=/dev/shm/seedrun-$name; S0=/dev/shm/seedrun0-$name; O=/dev/shm/seedrun-out-$name
  rm -rf $S $S0 $O; cp -a /repo $S; cp -a /repo $S0; mkdir -p $O
  git -C $S checkout -q -- . ; git -C $S apply /verif/seeded/$name/patch.diff || { rm -rf $S $S0 $O; exit 2; }
  VERIF_REPO_DIR=$S VERIF_OUT_DIR=$O /verif/bin/vcheck $chk --tier $tier > $O/run.log 2>&1; rc=$?
  rep="-"
  art=$(grep -m1 -o "replay=[^ ]*" $O/run.log | cut -d= -f2)
  if [ -n "$art" ]; then
    if VERIF_REPO_DIR=$S VERIF_OUT_DIR=$O /verif/bin/vcheck replay $art 2>/dev/null | grep -q "^REPRODUCED"; then rep=reproduced; else rep=NOT-reproduced; fi
    if VERIF_REPO_DIR=$S0 VERIF_OUT_DIR=$O /verif/bin/vcheck replay $art 2>/dev/null | grep -q "^NOT REPRODUCED"; then rep="$rep,clean-tree:not-reproduced"; else rep="$rep,clean-tree:REPRODUCED?"; fi
  fi
  grep -E "^(violation|VIOLATION|C[0-9]+ tier)" -A1 $O/run.log | grep -v "^--" | cut -c1-330 | head -8
  echo "seed=$name check=$chk rc=$rc replay=$rep"
  rm -rf $S $S0 $O
  exit 0
fi
