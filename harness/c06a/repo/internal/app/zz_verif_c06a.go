//go:build verif

package app

// Exports for the C06 harness (layered in through -overlay; never part of a normal build): the
// receiver CLI's detection and removal of leftover resume metadata (the user's "overwrite" choice).

func VerifHasResumeData(outDir, root string) bool   { return hasResumeData(outDir, root) }
func VerifClearResumeData(outDir, root string) error { return clearResumeData(outDir, root) }
