//go:build verif

package transfer

import "github.com/sheerbytes/sheerbytes/pkg/manifest"

// Exports for the C15(a) harness (overlay only).

const (
	VerifTypeFileBegin      = controlTypeFileBegin
	VerifTypeCredit         = controlTypeCredit
	VerifTypeFileEnd        = controlTypeFileEnd
	VerifTypeFileDone       = controlTypeFileDone
	VerifTypeFileResumeInfo = controlTypeFileResumeInfo
	VerifTypeResumeRequest  = controlTypeResumeRequest
	VerifTypeCreditBatch    = controlTypeCreditBatch
	VerifTypeDataStreams    = controlTypeDataStreams
	VerifTypeEnd            = controlTypeEnd
)

func VerifWriteControlHeader(s Stream, m manifest.Manifest) error { return writeControlHeader(s, m) }
func VerifReadControlHeader(s Stream) (manifest.Manifest, error)   { return readControlHeader(s) }
func VerifReadControlMessage(s Stream) (byte, any, error)          { return readControlMessage(s) }

// VerifWriteRecord encodes one record with the repository's encoder for its type.
func VerifWriteRecord(s Stream, rec any) error {
	switch r := rec.(type) {
	case FileBegin:
		return writeFileBegin(s, r)
	case Credit:
		return writeCredit(s, r)
	case CreditBatch:
		return writeCreditBatch(s, r)
	case FileEnd:
		return writeFileEnd(s, r)
	case FileDone:
		return writeFileDone(s, r)
	case FileResumeInfo:
		return writeFileResumeInfo(s, r)
	case ResumeRequest:
		return writeResumeRequest(s, r)
	case DataStreams:
		return writeDataStreams(s, r)
	case nil:
		return writeControlEnd(s)
	}
	panic("verif: unknown record")
}
