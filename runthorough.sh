#!/bin/bash
# runthorough.sh <ids...>: thorough tier of the given checks, one summary line each (results in /tmp/thorough_*.log)
export GOFLAGS=-mod=mod GOPROXY=off
cd /verif
for id in "$@"; do
  s=$(date +%s)
  VERIF_OUT_DIR=/dev/shm/thorough-out ./bin/vcheck $id --tier thorough > /tmp/thorough_$id.log 2>&1; rc=$?
  e=$(( $(date +%s) - s ))
  echo "$id rc=$rc ${e}s | $(tail -1 /tmp/thorough_$id.log | cut -c1-200)"
done
