//go:build verif

package main

import (
	"encoding/json"
	"fmt"
	"os"

	"github.com/sheerbytes/sheerbytes/internal/verif/vlib"
	vrt "github.com/sheerbytes/sheerbytes/internal/verif/vrt"
)

var res *vlib.Result

func main() {
	res = vlib.Parse()
	// the server and its logger print through termio: keep the harness output clean
	if devnull, err := os.OpenFile(os.DevNull, os.O_WRONLY, 0); err == nil {
		os.Stdout = devnull
	}
	mode := vlib.Arg("mode", "c10")
	res.Part = mode
	if vlib.F.Replay != "" {
		replayBox(mode)
		res.Finish()
	}
	switch mode {
	case "c10":
		modeC10()
	case "c14":
		modeC14()
	case "c16":
		modeC16()
	default:
		res.InfraError("unknown mode %s", mode)
	}
	res.Finish()
}

func replayBox(mode string) {
	var art struct {
		Violation struct {
			Replay json.RawMessage `json:"replay"`
		} `json:"violation"`
	}
	if err := vlib.ReadJSON(vlib.F.Replay, &art); err != nil {
		res.InfraError("%v", err)
		return
	}
	switch mode {
	case "c10":
		var rp c10Replay
		json.Unmarshal(art.Violation.Replay, &rp)
		var w *c10World
		if len(rp.Pair) == 3 {
			var a, b int
			fmt.Sscan(rp.Pair[0], &a)
			fmt.Sscan(rp.Pair[1], &b)
			x, err := vrt.Replay(boxCfg(), rp.Choices, func() {
				w = c10Build(rp.History)
				w.runPair(a, b, rp.Pair[2])
			})
			if err != nil {
				res.InfraError("%v", err)
				return
			}
			res.Eval()
			c10Report(rp.History, nil, w, x, fmt.Sprintf(" then #%d sends || #%d %s", a, b, rp.Pair[2]))
			return
		}
		x := vrt.Run(boxCfg(), nil, func() {
			w = c10Build(rp.History)
			if rp.Test != nil {
				w.runTest(*rp.Test)
			}
		})
		res.Eval()
		c10Report(rp.History, rp.Test, w, x, "")
	case "c14":
		var rp c14Replay
		json.Unmarshal(art.Violation.Replay, &rp)
		res.Eval()
		if rp.Scenario == "life" {
			lifeCheck(rp.Cfg, rp.History)
			return
		}
		for _, b := range c14Bursts() {
			if b.name != rp.Scenario {
				continue
			}
			var out *burstOut
			cfg := boxCfg()
			cfg.LockPoints = true
			x, err := vrt.Replay(cfg, rp.Choices, func() { out = b.run() })
			if err != nil {
				res.InfraError("%v", err)
				return
			}
			if c14Outcome(x, b.name, rp) && out != nil {
				for _, v := range out.viol {
					res.Violate("mismatch", "box/c14", map[string]any{"class": v[0], "scenario": b.kind}, fmt.Sprintf("%s %+v: %s", b.name, b.cfg, v[1]), rp)
				}
			}
			return
		}
		for _, sc := range c14RateScenarios() {
			if sc.name != rp.Scenario {
				continue
			}
			var viol [][2]string
			x := vrt.Run(boxCfg(), nil, func() { viol = sc.run() })
			if c14Outcome(x, sc.name, rp) {
				for _, v := range viol {
					res.Violate("mismatch", "box/c14", map[string]any{"class": v[0], "scenario": sc.kind}, fmt.Sprintf("%s: %s", sc.name, v[1]), rp)
				}
			}
			return
		}
		res.InfraError("unknown scenario %q", rp.Scenario)
	case "c16":
		var c c16Case
		json.Unmarshal(art.Violation.Replay, &c)
		var viol [][2]string
		x := vrt.Run(boxCfg(), nil, func() { viol = c16Run(c) })
		res.Eval()
		if x.Outcome != "ok" {
			kind := "hang"
			if x.Outcome == "panic" {
				kind = "panic"
			}
			res.Violate(kind, "box/c16", map[string]any{"panic": x.Detail, "blocked": x.Blocked}, fmt.Sprintf("[%s]: %s %s", c, x.Outcome, x.Detail), c)
			return
		}
		for _, v := range viol {
			res.Violate("mismatch", "box/c16", c16Sig(v[0], c), fmt.Sprintf("[%s]: %s", c, v[1]), c)
		}
	}
}
