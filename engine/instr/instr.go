// Package instr is the source instrumenter of engine E1 (see DESIGN.md §2.1).
//
// It loads the current working tree of the repository (plus the harness files layered over it)
// with full type information, rewrites concurrency, time, context and randomness constructs of
// every package of the module into calls of the controlled-scheduler runtime (internal/verif/vrt)
// and returns an overlay that maps every original file to its rewritten copy.
package instr

import (
	"bytes"
	"encoding/json"
	"fmt"
	"go/ast"
	"go/parser"
	"go/printer"
	"go/token"
	"go/types"
	"os"
	"path/filepath"
	"sort"
	"strings"

	"golang.org/x/tools/go/ast/astutil"
	"golang.org/x/tools/go/packages"
)

const (
	modPath = "github.com/sheerbytes/sheerbytes"
	vrtPath = modPath + "/internal/verif/vrt"
)

type Config struct {
	RepoDir  string
	OutDir   string
	Overlay  map[string]string // virtual path -> real file
	Env      []string
	Patterns []string
	Probes   []string // "pkgpath.Recv.Method" or "pkgpath.Func": emit vrt.Emit at entry/exit
	FsPoints bool     // rewrite file-system calls into vrt wrappers (kill/fault points)
	Skip     []string // package path prefixes left untouched
	Modfile  string   // alternative go.mod (-modfile) or ""
	ImportMap map[string]string // import path replacement (environment models)
	premapped map[string]string
	RenameMain map[string]string // package path suffix -> new name of func main
	HTTPSeams  bool              // route net/http server and client calls to vhttp
}

// Run instruments and returns the overlay including rewritten files.
func Run(cfg Config) (map[string]string, error) {
	cfg.premapped = map[string]string{}
	ov := map[string][]byte{}
	for virt, real := range cfg.Overlay {
		b, err := os.ReadFile(real)
		if err != nil {
			return nil, err
		}
		ov[virt] = b
	}
	// Environment models: replace import paths textually before loading, so that the whole
	// closure is type-checked against the model packages.
	if len(cfg.ImportMap) > 0 || len(cfg.RenameMain) > 0 {
		if err := premapImports(cfg, ov); err != nil {
			return nil, err
		}
	}
	fset := token.NewFileSet()
	pc := &packages.Config{
		Mode: packages.NeedName | packages.NeedFiles | packages.NeedCompiledGoFiles | packages.NeedSyntax |
			packages.NeedTypes | packages.NeedTypesInfo | packages.NeedImports | packages.NeedDeps | packages.NeedModule,
		Dir: cfg.RepoDir, Env: append(os.Environ(), cfg.Env...), Fset: fset, Overlay: ov,
		BuildFlags: []string{"-tags=verif"},
	}
	if cfg.Modfile != "" {
		pc.BuildFlags = append(pc.BuildFlags, "-modfile="+cfg.Modfile)
	}
	roots, err := packages.Load(pc, cfg.Patterns...)
	if err != nil {
		return nil, err
	}
	var errs []string
	seen := map[string]*packages.Package{}
	var visit func(p *packages.Package)
	visit = func(p *packages.Package) {
		if seen[p.PkgPath] != nil {
			return
		}
		if !strings.HasPrefix(p.PkgPath, modPath) {
			return
		}
		seen[p.PkgPath] = p
		for _, e := range p.Errors {
			errs = append(errs, e.Error())
		}
		for _, ip := range p.Imports {
			visit(ip)
		}
	}
	for _, r := range roots {
		visit(r)
	}
	if len(errs) > 0 {
		if len(errs) > 12 {
			errs = errs[:12]
		}
		return nil, fmt.Errorf("load errors:\n%s", strings.Join(errs, "\n"))
	}
	out := map[string]string{}
	for k, v := range cfg.Overlay {
		out[k] = v
	}
	for k, v := range cfg.premapped {
		out[k] = v
	}
	paths := make([]string, 0, len(seen))
	for p := range seen {
		paths = append(paths, p)
	}
	sort.Strings(paths)
	probes := map[string]bool{}
	for _, p := range cfg.Probes {
		probes[p] = true
	}
	for _, pp := range paths {
		p := seen[pp]
		if strings.HasPrefix(pp, modPath+"/internal/verif/") {
			continue
		}
		skip := false
		for _, s := range cfg.Skip {
			if strings.HasPrefix(pp, s) {
				skip = true
			}
		}
		if skip {
			continue
		}
		rw := &rewriter{pkg: p, fset: fset, info: p.TypesInfo, probes: probes, fsPoints: cfg.FsPoints, importMap: cfg.ImportMap, httpSeams: cfg.HTTPSeams}
		for suffix, nn := range cfg.RenameMain {
			if strings.HasSuffix(pp, suffix) {
				rw.renameMain = nn
			}
		}
		dir := filepath.Join(cfg.OutDir, strings.ReplaceAll(strings.TrimPrefix(pp, modPath), "/", "_"))
		if err := os.MkdirAll(dir, 0755); err != nil {
			return nil, err
		}
		for i, f := range p.Syntax {
			src := p.CompiledGoFiles[i]
			if !strings.HasSuffix(src, ".go") {
				continue
			}
			rw.file(f)
			f.Comments = nil
			stripDocs(f)
			var buf bytes.Buffer
			if err := printer.Fprint(&buf, fset, f); err != nil {
				return nil, fmt.Errorf("print %s: %w", src, err)
			}
			dst := filepath.Join(dir, filepath.Base(src))
			if err := os.WriteFile(dst, buf.Bytes(), 0644); err != nil {
				return nil, err
			}
			out[src] = dst
		}
		// package-level state reset
		if reset := rw.resetFile(); reset != nil && !strings.Contains(pp, "/cmd/verif_") {
			dst := filepath.Join(dir, "zz_verif_reset.go")
			if err := os.WriteFile(dst, reset, 0644); err != nil {
				return nil, err
			}
			pdir := filepath.Dir(p.CompiledGoFiles[0])
			out[filepath.Join(pdir, "zz_verif_reset.go")] = dst
		}
		if len(rw.errs) > 0 {
			return nil, fmt.Errorf("instrument %s: %s", pp, strings.Join(rw.errs, "; "))
		}
	}
	for p := range probes {
		if !probesHit[p] {
			return nil, fmt.Errorf("probe %q matched nothing", p)
		}
	}
	b, _ := json.MarshalIndent(out, "", " ")
	os.WriteFile(filepath.Join(cfg.OutDir, "files.json"), b, 0644)
	return out, nil
}

var probesHit = map[string]bool{}

type rewriter struct {
	pkg      *packages.Package
	fset     *token.FileSet
	info     *types.Info
	selN     int
	goN      int
	used     bool
	errs     []string
	probes   map[string]bool
	fsPoints bool
	importMap map[string]string
	httpSeams bool
	renameMain string
	usedHTTP bool
}

func sel(x, name string) ast.Expr {
	return &ast.SelectorExpr{X: ast.NewIdent(x), Sel: ast.NewIdent(name)}
}
func call(fn ast.Expr, args ...ast.Expr) *ast.CallExpr { return &ast.CallExpr{Fun: fn, Args: args} }
func id(n string) *ast.Ident                           { return ast.NewIdent(n) }

func (r *rewriter) isChan(e ast.Expr) bool {
	t := r.info.TypeOf(e)
	if t == nil {
		return false
	}
	_, ok := t.Underlying().(*types.Chan)
	return ok
}

func (r *rewriter) chanDir(e ast.Expr) types.ChanDir {
	t := r.info.TypeOf(e)
	if c, ok := t.Underlying().(*types.Chan); ok {
		return c.Dir()
	}
	return types.SendRecv
}

func (r *rewriter) isMap(e ast.Expr) bool {
	t := r.info.TypeOf(e)
	if t == nil {
		return false
	}
	_, ok := t.Underlying().(*types.Map)
	return ok
}

func (r *rewriter) pkgOf(s *ast.SelectorExpr) string {
	idn, ok := s.X.(*ast.Ident)
	if !ok {
		return ""
	}
	if pn, ok := r.info.Uses[idn].(*types.PkgName); ok {
		return pn.Imported().Path()
	}
	return ""
}

var syncTypes = map[string]bool{"Mutex": true, "RWMutex": true, "Once": true, "WaitGroup": true, "Pool": true, "Map": true}
var timeFuncs = map[string]bool{"Now": true, "Since": true, "Until": true, "After": true, "AfterFunc": true, "NewTimer": true,
	"NewTicker": true, "Sleep": true, "Timer": true, "Ticker": true}
var ctxFuncs = map[string]bool{"WithCancel": true, "WithTimeout": true, "WithDeadline": true}
var atomicFuncs = map[string]string{}
var atomicTypes = map[string]bool{"Int32": true, "Int64": true, "Uint32": true, "Uint64": true, "Uintptr": true, "Bool": true, "Pointer": true, "Value": true}

func init() {
	for _, t := range []string{"Int32", "Int64", "Uint32", "Uint64", "Uintptr"} {
		atomicFuncs["Add"+t] = "AtomicAdd"
		atomicFuncs["Load"+t] = "AtomicLoad"
		atomicFuncs["Store"+t] = "AtomicStore"
		atomicFuncs["Swap"+t] = "AtomicSwap"
		atomicFuncs["CompareAndSwap"+t] = "AtomicCAS"
	}
}

var fsFuncs = map[string]string{"WriteFile": "OsWriteFile", "Rename": "OsRename", "Remove": "OsRemove", "RemoveAll": "OsRemoveAll",
	"MkdirAll": "OsMkdirAll", "Mkdir": "OsMkdir", "OpenFile": "OsOpenFile", "Create": "OsCreate", "Truncate": "OsTruncate"}
var fileMethods = map[string]string{"WriteAt": "FileWriteAt", "Write": "FileWrite", "Truncate": "FileTruncate", "Close": "FileClose", "Sync": "FileSync"}

func (r *rewriter) file(f *ast.File) {
	r.used = false
	info := r.info
	skip := map[ast.Node]bool{}
	astutil.Apply(f, func(c *astutil.Cursor) bool {
		if s, ok := c.Node().(*ast.SelectStmt); ok {
			for _, cl := range s.Body.List {
				cc := cl.(*ast.CommClause)
				switch st := cc.Comm.(type) {
				case *ast.ExprStmt:
					skip[unparen(st.X)] = true
				case *ast.AssignStmt:
					skip[unparen(st.Rhs[0])] = true
					skip[st] = true
				case *ast.SendStmt:
					skip[st] = true
				}
			}
		}
		return true
	}, func(c *astutil.Cursor) bool {
		switch n := c.Node().(type) {
		case *ast.FuncDecl:
			r.probe(n)
			if r.renameMain != "" && n.Recv == nil && n.Name.Name == "main" && !strings.HasPrefix(filepath.Base(r.fset.Position(n.Pos()).Filename), "zz_verif") {
				n.Name = ast.NewIdent(r.renameMain)
			}
		case *ast.GoStmt:
			r.used = true
			c.Replace(r.rewriteGo(n))
		case *ast.SendStmt:
			if skip[n] {
				return true
			}
			r.used = true
			c.Replace(&ast.ExprStmt{X: call(sel("vrt", "Send"), n.Chan, n.Value)})
		case *ast.UnaryExpr:
			if n.Op != token.ARROW || skip[n] {
				return true
			}
			r.used = true
			c.Replace(call(sel("vrt", "Recv"), n.X))
		case *ast.AssignStmt:
			if skip[n] {
				return true
			}
			if len(n.Lhs) == 2 && len(n.Rhs) == 1 {
				if ce, ok := n.Rhs[0].(*ast.CallExpr); ok {
					if se, ok := ce.Fun.(*ast.SelectorExpr); ok && se.Sel.Name == "Recv" {
						if idn, ok := se.X.(*ast.Ident); ok && idn.Name == "vrt" {
							se.Sel.Name = "Recv2"
						}
					}
				}
			}
		case *ast.ValueSpec:
			if len(n.Names) == 2 && len(n.Values) == 1 {
				if ce, ok := n.Values[0].(*ast.CallExpr); ok {
					if se, ok := ce.Fun.(*ast.SelectorExpr); ok && se.Sel.Name == "Recv" {
						if idn, ok := se.X.(*ast.Ident); ok && idn.Name == "vrt" {
							se.Sel.Name = "Recv2"
						}
					}
				}
			}
		case *ast.RangeStmt:
			if r.isChan(n.X) {
				r.used = true
				n.X = call(sel("vrt", "RangeChan"), n.X)
			} else if r.isMap(n.X) {
				r.used = true
				n.X = call(sel("vrt", "RangeMap"), n.X)
			}
		case *ast.CallExpr:
			if idn, ok := n.Fun.(*ast.Ident); ok && idn.Name == "close" {
				if _, isBuiltin := info.Uses[idn].(*types.Builtin); isBuiltin {
					r.used = true
					if len(n.Args) == 1 && r.chanDir(n.Args[0]) == types.SendOnly {
						n.Fun = sel("vrt", "CloseSendOnly")
					} else {
						n.Fun = sel("vrt", "Close")
					}
				}
			}
			if r.httpSeams {
				if se, ok := n.Fun.(*ast.SelectorExpr); ok && se.Sel.Name == "Do" {
					if s := info.Selections[se]; s != nil && s.Kind() == types.MethodVal && isNamed(s.Recv(), "net/http", "Client") {
						r.usedHTTP = true
						n.Args = append([]ast.Expr{se.X}, n.Args...)
						n.Fun = sel("vhttp", "Do")
					}
				}
			}
			if r.fsPoints {
				if se, ok := n.Fun.(*ast.SelectorExpr); ok {
					if s := info.Selections[se]; s != nil && s.Kind() == types.MethodVal {
						if isOsFile(s.Recv()) {
							if w, ok := fileMethods[se.Sel.Name]; ok {
								r.used = true
								n.Args = append([]ast.Expr{se.X}, n.Args...)
								n.Fun = sel("vrt", w)
							}
						}
					}
				}
			}
		case *ast.SelectorExpr:
			switch r.pkgOf(n) {
			case "sync":
				if syncTypes[n.Sel.Name] {
					r.used = true
					c.Replace(sel("vrt", n.Sel.Name))
				}
			case "sync/atomic":
				if w, ok := atomicFuncs[n.Sel.Name]; ok {
					r.used = true
					c.Replace(sel("vrt", w))
				} else if atomicTypes[n.Sel.Name] {
					r.used = true
					c.Replace(sel("vrt", "Atomic"+n.Sel.Name))
				} else {
					r.errs = append(r.errs, "unsupported sync/atomic."+n.Sel.Name)
				}
			case "time":
				if timeFuncs[n.Sel.Name] {
					r.used = true
					c.Replace(sel("vrt", n.Sel.Name))
				}
			case "context":
				if ctxFuncs[n.Sel.Name] {
					r.used = true
					c.Replace(sel("vrt", n.Sel.Name))
				}
			case "crypto/rand":
				switch n.Sel.Name {
				case "Read":
					r.used = true
					c.Replace(sel("vrt", "RandRead"))
				case "Reader":
					r.used = true
					c.Replace(sel("vrt", "RandReader"))
				}
			case "net/http":
				if r.httpSeams && (n.Sel.Name == "HandleFunc" || n.Sel.Name == "ListenAndServe") {
					r.usedHTTP = true
					c.Replace(sel("vhttp", n.Sel.Name))
				}
			case "os":
				if n.Sel.Name == "Exit" {
					r.used = true
					c.Replace(sel("vrt", "Exit"))
				} else if r.fsPoints {
					if w, ok := fsFuncs[n.Sel.Name]; ok {
						r.used = true
						c.Replace(sel("vrt", w))
					}
				}
			}
		case *ast.SelectStmt:
			r.used = true
			r.rewriteSelect(c, n)
		}
		return true
	})
	if r.used {
		astutil.AddNamedImport(r.fset, f, "vrt", vrtPath)
	}
	if r.usedHTTP {
		astutil.AddNamedImport(r.fset, f, "vhttp", modPath+"/internal/verif/venv/vhttp")
		r.usedHTTP = false
	}

	for _, imp := range []string{"sync", "sync/atomic", "time", "context", "crypto/rand", "os", "net/http"} {
		if !astutil.UsesImport(f, imp) {
			astutil.DeleteImport(r.fset, f, imp)
			// named imports of the same path
			for _, is := range f.Imports {
				if is.Name != nil && strings.Trim(is.Path.Value, `"`) == imp && is.Name.Name != "_" {
					if !usesName(f, is.Name.Name) {
						astutil.DeleteNamedImport(r.fset, f, is.Name.Name, imp)
					}
				}
			}
		}
	}
}

func usesName(f *ast.File, name string) bool {
	used := false
	ast.Inspect(f, func(n ast.Node) bool {
		if se, ok := n.(*ast.SelectorExpr); ok {
			if idn, ok := se.X.(*ast.Ident); ok && idn.Name == name && idn.Obj == nil {
				used = true
			}
		}
		return true
	})
	return used
}

func isNamed(t types.Type, pkg, name string) bool {
	if p, ok := t.(*types.Pointer); ok {
		t = p.Elem()
	}
	if n, ok := t.(*types.Named); ok {
		return n.Obj().Pkg() != nil && n.Obj().Pkg().Path() == pkg && n.Obj().Name() == name
	}
	return false
}

func isOsFile(t types.Type) bool {
	if p, ok := t.(*types.Pointer); ok {
		t = p.Elem()
	}
	if n, ok := t.(*types.Named); ok {
		return n.Obj().Pkg() != nil && n.Obj().Pkg().Path() == "os" && n.Obj().Name() == "File"
	}
	return false
}

func unparen(e ast.Expr) ast.Expr {
	for {
		p, ok := e.(*ast.ParenExpr)
		if !ok {
			return e
		}
		e = p.X
	}
}

// rewriteGo turns `go f(a, b)` into `{ _f := f; _a0 := a; _a1 := b; vrt.Go(func(){ _f(_a0,_a1) }) }`.
func (r *rewriter) rewriteGo(g *ast.GoStmt) ast.Stmt {
	r.goN++
	base := fmt.Sprintf("_vg%d", r.goN)
	var pre []ast.Stmt
	callExpr := g.Call
	fun := unparen(callExpr.Fun)
	newFun := callExpr.Fun
	switch fn := fun.(type) {
	case *ast.FuncLit:
	default:
		bind := true
		switch f2 := fn.(type) {
		case *ast.Ident:
			if _, ok := r.info.Uses[f2].(*types.Func); ok {
				bind = false
			}
			if _, ok := r.info.Uses[f2].(*types.Builtin); ok {
				bind = false
			}
		case *ast.SelectorExpr:
			if r.pkgOf(f2) != "" {
				bind = false
			}
			if idn, ok := f2.X.(*ast.Ident); ok && idn.Name == "vrt" {
				bind = false
			}
		case *ast.IndexExpr, *ast.IndexListExpr:
			bind = false
		}
		if tv, ok := r.info.Types[fn]; ok && tv.IsType() {
			bind = false
		}
		if bind {
			pre = append(pre, &ast.AssignStmt{Lhs: []ast.Expr{id(base + "f")}, Tok: token.DEFINE, Rhs: []ast.Expr{callExpr.Fun}})
			newFun = id(base + "f")
		}
	}
	args := make([]ast.Expr, len(callExpr.Args))
	for i, a := range callExpr.Args {
		tv := r.info.Types[a]
		inline := tv.Value != nil || tv.IsNil()
		if _, ok := unparen(a).(*ast.FuncLit); ok {
			inline = true
		}
		if t := r.info.TypeOf(a); t != nil {
			if b, ok := t.(*types.Basic); ok && b.Info()&types.IsUntyped != 0 {
				inline = true
			}
			if _, ok := t.(*types.Tuple); ok {
				inline = true
			}
		} else {
			inline = true // already rewritten node without type info (e.g. vrt.Recv(...)): evaluate in the closure
			// evaluating a receive late would change semantics; bind it through a typed temp is impossible
			// without its type, so fall back to := which infers it.
			inline = false
		}
		if inline {
			args[i] = a
			continue
		}
		name := fmt.Sprintf("%sa%d", base, i)
		pre = append(pre, &ast.AssignStmt{Lhs: []ast.Expr{id(name)}, Tok: token.DEFINE, Rhs: []ast.Expr{a}})
		args[i] = id(name)
	}
	nc := &ast.CallExpr{Fun: newFun, Args: args, Ellipsis: callExpr.Ellipsis}
	if callExpr.Ellipsis == token.NoPos {
		nc.Ellipsis = token.NoPos
	} else {
		nc.Ellipsis = 1
	}
	body := &ast.BlockStmt{List: []ast.Stmt{&ast.ExprStmt{X: nc}}}
	goCall := &ast.ExprStmt{X: call(sel("vrt", "Go"), &ast.FuncLit{Type: &ast.FuncType{Params: &ast.FieldList{}}, Body: body})}
	if len(pre) == 0 {
		return goCall
	}
	return &ast.BlockStmt{List: append(pre, goCall)}
}

func (r *rewriter) rewriteSelect(c *astutil.Cursor, s *ast.SelectStmt) {
	r.selN++
	base := fmt.Sprintf("_vs%d", r.selN)
	var pre []ast.Stmt
	var caseArgs []ast.Expr
	hasDefault := "false"
	sw := &ast.SwitchStmt{Tag: sel(base, "Index"), Body: &ast.BlockStmt{}}
	k := 0
	for _, cl := range s.Body.List {
		cc := cl.(*ast.CommClause)
		if cc.Comm == nil {
			hasDefault = "true"
			sw.Body.List = append(sw.Body.List, &ast.CaseClause{Body: cc.Body}) // default: keeps the statement terminating
			continue
		}
		cname := fmt.Sprintf("%sc%d", base, k)
		var chExpr ast.Expr
		var body []ast.Stmt
		switch st := cc.Comm.(type) {
		case *ast.ExprStmt:
			chExpr = unparen(st.X).(*ast.UnaryExpr).X
			caseArgs = append(caseArgs, call(sel("vrt", "CaseRecv"), id(cname)))
		case *ast.AssignStmt:
			chExpr = unparen(st.Rhs[0]).(*ast.UnaryExpr).X
			caseArgs = append(caseArgs, call(sel("vrt", "CaseRecv"), id(cname)))
			fn := "RecvValue"
			if len(st.Lhs) == 2 {
				fn = "RecvValue2"
			}
			body = append(body, &ast.AssignStmt{Lhs: st.Lhs, Tok: st.Tok, Rhs: []ast.Expr{call(sel("vrt", fn), id(cname), id(base))}})
			// silence "declared and not used" for variables the original body ignored only via the select
			if st.Tok == token.DEFINE {
				for _, l := range st.Lhs {
					if idn, ok := l.(*ast.Ident); ok && idn.Name != "_" {
						body = append(body, &ast.AssignStmt{Lhs: []ast.Expr{id("_")}, Tok: token.ASSIGN, Rhs: []ast.Expr{id(idn.Name)}})
					}
				}
			}
		case *ast.SendStmt:
			chExpr = st.Chan
			vname := fmt.Sprintf("%sv%d", base, k)
			// the value expression is evaluated once, in source order, like the channel expression
			pre = append(pre, &ast.AssignStmt{Lhs: []ast.Expr{id(cname)}, Tok: token.DEFINE, Rhs: []ast.Expr{chExpr}})
			chExpr = nil
			_ = vname
			caseArgs = append(caseArgs, call(sel("vrt", "CaseSend"), id(cname), st.Value))
		}
		if chExpr != nil {
			pre = append(pre, &ast.AssignStmt{Lhs: []ast.Expr{id(cname)}, Tok: token.DEFINE, Rhs: []ast.Expr{chExpr}})
		}
		body = append(body, cc.Body...)
		sw.Body.List = append(sw.Body.List, &ast.CaseClause{List: []ast.Expr{&ast.BasicLit{Kind: token.INT, Value: fmt.Sprint(k)}}, Body: body})
		k++
	}
	if hasDefault == "false" {
		sw.Body.List = append(sw.Body.List, &ast.CaseClause{Body: []ast.Stmt{&ast.ExprStmt{X: call(id("panic"), &ast.BasicLit{Kind: token.STRING, Value: `"vrt: unreachable select index"`})}}})
	}
	args := append([]ast.Expr{id(hasDefault)}, caseArgs...)
	pre = append(pre, &ast.AssignStmt{Lhs: []ast.Expr{id(base)}, Tok: token.DEFINE, Rhs: []ast.Expr{call(sel("vrt", "Select"), args...)}})
	c.Replace(&ast.BlockStmt{List: append(pre, sw)})
}

// probe inserts vrt.Emit calls at entry and exit of configured functions.
func (r *rewriter) probe(fd *ast.FuncDecl) {
	if len(r.probes) == 0 || fd.Body == nil {
		return
	}
	name := r.pkg.PkgPath + "."
	if fd.Recv != nil && len(fd.Recv.List) == 1 {
		t := fd.Recv.List[0].Type
		if st, ok := t.(*ast.StarExpr); ok {
			t = st.X
		}
		if idn, ok := t.(*ast.Ident); ok {
			name += idn.Name + "."
		}
	}
	name += fd.Name.Name
	short := strings.TrimPrefix(name, modPath+"/")
	if !r.probes[short] {
		return
	}
	probesHit[short] = true
	r.used = true
	// name results so that a deferred Emit can report them
	var resNames []ast.Expr
	if fd.Type.Results != nil {
		n := 0
		for _, f := range fd.Type.Results.List {
			if len(f.Names) == 0 {
				f.Names = []*ast.Ident{id(fmt.Sprintf("_vr%d", n))}
			}
			for i, nm := range f.Names {
				if nm.Name == "_" {
					f.Names[i] = id(fmt.Sprintf("_vr%d", n))
				}
				resNames = append(resNames, id(f.Names[i].Name))
				n++
			}
		}
	}
	var recvArg []ast.Expr
	if fd.Recv != nil && len(fd.Recv.List) == 1 && len(fd.Recv.List[0].Names) == 1 && fd.Recv.List[0].Names[0].Name != "_" {
		recvArg = append(recvArg, id(fd.Recv.List[0].Names[0].Name))
	}
	var params []ast.Expr
	for _, f := range fd.Type.Params.List {
		for _, nm := range f.Names {
			if nm.Name != "_" {
				params = append(params, id(nm.Name))
			}
		}
	}
	enter := &ast.ExprStmt{X: call(sel("vrt", "Emit"), append(append([]ast.Expr{&ast.BasicLit{Kind: token.STRING, Value: fmt.Sprintf("%q", "enter:"+short)}}, recvArg...), params...)...)}
	exitCall := call(sel("vrt", "Emit"), append(append([]ast.Expr{&ast.BasicLit{Kind: token.STRING, Value: fmt.Sprintf("%q", "exit:"+short)}}, recvArg...), resNames...)...)
	def := &ast.DeferStmt{Call: call(&ast.FuncLit{Type: &ast.FuncType{Params: &ast.FieldList{}}, Body: &ast.BlockStmt{List: []ast.Stmt{&ast.ExprStmt{X: exitCall}}}})}
	fd.Body.List = append([]ast.Stmt{enter, def}, fd.Body.List...)
}

// resetFile generates zz_verif_reset.go: package-level variables are re-initialised (in the
// package's own initialisation order) at the start of every execution.
func (r *rewriter) resetFile() []byte {
	p := r.pkg
	if p.Types == nil {
		return nil
	}
	scope := p.Types.Scope()
	inInit := map[*types.Var]bool{}
	var stmts []string
	var imports = map[string]string{}
	qual := func(pkg *types.Package) string {
		if pkg == p.Types {
			return ""
		}
		name := pkg.Name()
		if pkg.Path() == vrtPath {
			return "vrt"
		}
		imports[pkg.Path()] = name
		return name
	}
	usable := func(v *types.Var) bool {
		if v.Name() == "_" {
			return false
		}
		if strings.HasPrefix(filepath.Base(r.fset.Position(v.Pos()).Filename), "zz_verif") {
			return false // harness state living in a repository package
		}
		t := v.Type()
		if !mutableType(t, 0) {
			return false
		}
		return true
	}
	// Zero the variables without initialiser first.
	names := scope.Names()
	for _, in := range r.info.InitOrder {
		for _, v := range in.Lhs {
			inInit[v] = true
		}
	}
	for _, n := range names {
		v, ok := scope.Lookup(n).(*types.Var)
		if !ok || inInit[v] || !usable(v) {
			continue
		}
		ts := types.TypeString(v.Type(), qual)
		if strings.Contains(ts, "sync.") || strings.Contains(ts, "time.Timer") || strings.Contains(ts, "time.Ticker") {
			// type printed from pre-rewrite type info: map to vrt names
			ts = strings.NewReplacer("sync.Mutex", "vrt.Mutex", "sync.RWMutex", "vrt.RWMutex", "sync.Once", "vrt.Once", "sync.WaitGroup", "vrt.WaitGroup",
				"sync.Pool", "vrt.Pool", "sync.Map", "vrt.Map", "time.Timer", "vrt.Timer", "time.Ticker", "vrt.Ticker").Replace(ts)
			delete(imports, "sync")
		}
		stmts = append(stmts, fmt.Sprintf("\t\t%s = *new(%s)", v.Name(), ts))
	}
	for _, in := range r.info.InitOrder {
		ok := true
		for _, v := range in.Lhs {
			if !usable(v) {
				ok = false
			}
		}
		if !ok || usesPkg(r.info, in.Rhs, "flag") {
			continue
		}
		var lhs []string
		for _, v := range in.Lhs {
			lhs = append(lhs, v.Name())
		}
		var eb bytes.Buffer
		printer.Fprint(&eb, r.fset, in.Rhs) // already rewritten AST
		collectImports(r.info, in.Rhs, imports)
		stmts = append(stmts, fmt.Sprintf("\t\t%s = %s", strings.Join(lhs, ", "), eb.String()))
	}
	if len(stmts) == 0 {
		return nil
	}
	var b bytes.Buffer
	fmt.Fprintf(&b, "package %s\n\nimport (\n\tvrt %q\n", p.Name, vrtPath)
	ipaths := make([]string, 0, len(imports))
	for ip := range imports {
		ipaths = append(ipaths, ip)
	}
	sort.Strings(ipaths)
	for _, ip := range ipaths {
		if ip == "sync" || ip == vrtPath {
			continue
		}
		fmt.Fprintf(&b, "\t%s %q\n", imports[ip], ip)
	}
	b.WriteString(")\n\n")
	for _, ip := range ipaths {
		if ip == "sync" || ip == vrtPath {
			continue
		}
		fmt.Fprintf(&b, "var _ = %s.%s\n", imports[ip], anyExported(p, ip))
	}
	b.WriteString("\nfunc init() {\n\tvrt.OnReset(func() {\n")
	b.WriteString(strings.Join(stmts, "\n"))
	b.WriteString("\n\t})\n}\n")
	return b.Bytes()
}

// anyExported returns some exported identifier of an imported package (to keep the import used).
func anyExported(p *packages.Package, path string) string {
	ip := p.Imports[path]
	if ip == nil || ip.Types == nil {
		return "X"
	}
	for _, n := range ip.Types.Scope().Names() {
		if ast.IsExported(n) {
			o := ip.Types.Scope().Lookup(n)
			switch o.(type) {
			case *types.Func, *types.Var, *types.Const:
				if f, ok := o.(*types.Func); ok {
					if f.Type().(*types.Signature).TypeParams() != nil {
						continue
					}
				}
				return n
			}
		}
	}
	return "X"
}

func usesPkg(info *types.Info, e ast.Expr, path string) bool {
	found := false
	ast.Inspect(e, func(n ast.Node) bool {
		if idn, ok := n.(*ast.Ident); ok {
			if pn, ok := info.Uses[idn].(*types.PkgName); ok && pn.Imported().Path() == path {
				found = true
			}
		}
		return true
	})
	return found
}

func collectImports(info *types.Info, e ast.Expr, imports map[string]string) {
	ast.Inspect(e, func(n ast.Node) bool {
		if idn, ok := n.(*ast.Ident); ok {
			if pn, ok := info.Uses[idn].(*types.PkgName); ok {
				imports[pn.Imported().Path()] = pn.Name()
			}
		}
		return true
	})
}

// mutableType reports whether a package-level variable of this type can carry state from one
// execution into the next.
func mutableType(t types.Type, depth int) bool {
	if depth > 6 {
		return true
	}
	switch u := t.(type) {
	case *types.Named:
		if o := u.Obj(); o.Pkg() != nil {
			switch o.Pkg().Path() + "." + o.Name() {
			case "hash/crc32.Table", "flag.FlagSet", "regexp.Regexp", "log/slog.Logger", "os.File":
				return false
			}
		}
		return mutableType(u.Underlying(), depth+1)
	case *types.Basic:
		return true
	case *types.Pointer:
		return mutableType(u.Elem(), depth+1)
	case *types.Interface:
		return false // errors, io.Reader, ...
	case *types.Signature:
		return false
	}
	return true
}

func stripDocs(f *ast.File) {
	f.Doc = nil
	ast.Inspect(f, func(n ast.Node) bool {
		switch x := n.(type) {
		case *ast.GenDecl:
			x.Doc = nil
		case *ast.FuncDecl:
			x.Doc = nil
		case *ast.Field:
			x.Doc, x.Comment = nil, nil
		case *ast.ValueSpec:
			x.Doc, x.Comment = nil, nil
		case *ast.TypeSpec:
			x.Doc, x.Comment = nil, nil
		case *ast.ImportSpec:
			x.Doc, x.Comment = nil, nil
		}
		return true
	})
}

// premapImports rewrites the import paths of ImportMap in every non-test Go file of the
// repository (and of the overlay) and puts the results into the overlay.
func premapImports(cfg Config, ov map[string][]byte) error {
	dir := filepath.Join(cfg.OutDir, "premap")
	if err := os.MkdirAll(dir, 0755); err != nil {
		return err
	}
	n := 0
	rewrite := func(path string, src []byte) error {
		fs := token.NewFileSet()
		f, err := parser.ParseFile(fs, path, src, parser.ImportsOnly)
		if err != nil {
			return nil // not our problem here
		}
		type edit struct {
			off, end int
			s        string
		}
		var edits []edit
		for _, is := range f.Imports {
			if np, ok := cfg.ImportMap[strings.Trim(is.Path.Value, `"`)]; ok {
				edits = append(edits, edit{fs.Position(is.Path.Pos()).Offset, fs.Position(is.Path.End()).Offset, fmt.Sprintf("%q", np)})
			}
		}
		for suffix, nn := range cfg.RenameMain {
			if strings.HasSuffix(filepath.Dir(path), suffix) && !strings.HasPrefix(filepath.Base(path), "zz_verif") {
				if ff, err := parser.ParseFile(fs, path, src, 0); err == nil {
					for _, d := range ff.Decls {
						if fd, ok := d.(*ast.FuncDecl); ok && fd.Recv == nil && fd.Name.Name == "main" {
							edits = append(edits, edit{fs.Position(fd.Name.Pos()).Offset, fs.Position(fd.Name.End()).Offset, nn})
						}
					}
				}
			}
		}
		if len(edits) == 0 {
			return nil
		}
		sort.Slice(edits, func(i, j int) bool { return edits[i].off < edits[j].off })
		out := append([]byte(nil), src...)
		for i := len(edits) - 1; i >= 0; i-- {
			e := edits[i]
			out = append(out[:e.off], append([]byte(e.s), out[e.end:]...)...)
		}
		n++
		dst := filepath.Join(dir, fmt.Sprintf("%d_%s", n, filepath.Base(path)))
		if err := os.WriteFile(dst, out, 0644); err != nil {
			return err
		}
		ov[path] = out
		cfg.premapped[path] = dst
		return nil
	}
	for path, src := range ov {
		if strings.HasSuffix(path, ".go") {
			if err := rewrite(path, src); err != nil {
				return err
			}
		}
	}
	return filepath.WalkDir(cfg.RepoDir, func(path string, d os.DirEntry, err error) error {
		if err != nil {
			return nil
		}
		if d.IsDir() {
			if strings.HasPrefix(d.Name(), ".") && path != cfg.RepoDir {
				return filepath.SkipDir
			}
			return nil
		}
		if !strings.HasSuffix(path, ".go") || strings.HasSuffix(path, "_test.go") {
			return nil
		}
		if _, inOv := ov[path]; inOv {
			return nil
		}
		src, err := os.ReadFile(path)
		if err != nil {
			return nil
		}
		return rewrite(path, src)
	})
}
