//go:build verif

package transferquic

import (
	"log/slog"

	"github.com/quic-go/quic-go"
)

// VerifWrapConn wraps an accepted connection exactly as QUICTransport.Accept does (overlay only).
func VerifWrapConn(c *quic.Conn, logger *slog.Logger) *QUICConn {
	return &QUICConn{conn: c, logger: logger}
}
