//go:build verif

package main

import (
	"encoding/json"
	"fmt"
	"os"
	"path/filepath"
	"sort"
	"time"

	"github.com/sheerbytes/sheerbytes/internal/verif/vlib"
	vrt "github.com/sheerbytes/sheerbytes/internal/verif/vrt"
)

var res *vlib.Result

func main() {
	res = vlib.Parse()
	mode := vlib.Arg("mode", "model")
	res.Part = "ws-" + mode
	shared := filepath.Join(os.Getenv("VERIF_WORKDIR"), "confws-native.json")
	if mode == "native" {
		res.Rule = "each WebSocket scenario executed 3 times on real gorilla/websocket and net/http over loopback TCP; observations recorded for the model side"
		out := map[string][]string{}
		for _, sc := range scenarios {
			seen := map[string]bool{}
			for i := 0; i < 3; i++ {
				ch := make(chan string, 1)
				go func() { ch <- sc.f() }()
				select {
				case o := <-ch:
					seen[o] = true
				case <-time.After(20 * time.Second):
					seen["hang"] = true
				}
				res.Eval()
			}
			for o := range seen {
				out[sc.name] = append(out[sc.name], o)
			}
			sort.Strings(out[sc.name])
			res.Nontrivial(sc.name)
		}
		b, _ := json.Marshal(out)
		if err := os.WriteFile(shared, b, 0644); err != nil {
			res.InfraError("%v", err)
		}
		res.Finish()
	}
	res.Rule = "each WebSocket scenario explored on the vws/vhttp models under the controlled scheduler (all schedules within delay bound 1); the observation of the real library must be among the model's observations, and scenarios written to be deterministic must have exactly one"
	native := map[string][]string{}
	if b, err := os.ReadFile(shared); err == nil {
		json.Unmarshal(b, &native)
	} else {
		res.InfraError("native observations missing: %v", err)
	}
	report := map[string]any{}
	for _, sc := range scenarios {
		sc := sc
		seen := map[string]int{}
		cfg := vrt.DefaultConfig()
		cfg.LockPoints = false
		cfg.IdleHorizon = int64(time.Hour)
		var out string
		ex := &vrt.Explorer{Cfg: cfg, Bound: 1, Root: func() { registered = false; out = ""; out = sc.f() }}
		ex.Visit = func(x *vrt.Exec) bool {
			res.Eval()
			if x.Outcome == "ok" {
				seen[out]++
			} else {
				seen[x.Outcome+":"+x.Detail]++
			}
			return true
		}
		ex.Run()
		res.Trans += ex.Execs
		res.Validated += ex.Execs
		res.States += ex.Nodes
		var model []string
		for o := range seen {
			model = append(model, o)
		}
		sort.Strings(model)
		res.Nontrivial(sc.name)
		for _, o := range native[sc.name] {
			if seen[o] == 0 {
				res.Violate("mismatch", "conformance/ws", map[string]any{"scenario": sc.name, "class": "real-library-observation-missing-in-model"},
					fmt.Sprintf("%s: real gorilla/websocket showed %q, the vws/vhttp models only produce %v", sc.name, o, model), sc.name)
			}
		}
		nat := map[string]bool{}
		for _, o := range native[sc.name] {
			nat[o] = true
		}
		for _, o := range model {
			if !nat[o] {
				res.Violate("mismatch", "conformance/ws", map[string]any{"scenario": sc.name, "class": "model-observation-never-seen-on-the-real-library"},
					fmt.Sprintf("%s: the vws/vhttp models produce %q, real gorilla/websocket showed %v", sc.name, o, native[sc.name]), sc.name)
			}
		}
		res.Sample(map[string]any{"scenario": sc.name, "model": model, "real": native[sc.name]})
		report[sc.name] = map[string]any{"model": model, "real": native[sc.name], "executions": ex.Execs}
	}
	b, _ := json.Marshal(report)
	res.Extra["scenarios"] = string(b)
	res.Finish()
}
