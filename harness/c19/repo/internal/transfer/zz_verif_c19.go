//go:build verif

package transfer

// Exports for the C19 harness (layered in through -overlay; never part of a normal build).

func VerifChunkTotal(fileSize int64, chunkSize uint32) uint32 { return chunkTotal(fileSize, chunkSize) }
func VerifChunkSizeForIndex(fileSize int64, chunkSize uint32, idx uint32) uint32 {
	return chunkSizeForIndex(fileSize, chunkSize, idx)
}

const VerifMaxFileSize = int64(maxFileSize)

// VerifWriteLateChunk runs the receiver's write of a chunk that arrives after its file was
// finalised (a third place where a chunk index is turned into a file offset).
func VerifWriteLateChunk(path string, chunkSize uint32, idx uint32, data []byte) error {
	return writeLateChunk(&recvFileStateMux{filePath: path, chunkSize: chunkSize}, idx, data)
}
