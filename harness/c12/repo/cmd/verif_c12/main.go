//go:build verif

// C12 harness: explicit-state search (engine E2) over event histories on the real
// SnapshotSender. A state is the history that reaches it; a successor is built by replaying the
// history on a fresh sender under the controlled scheduler (each event run to quiescence) and
// applying one more event; the canonical form of the real object's scheduling fields is hashed
// to deduplicate. Invariants I1-I4 are evaluated on the real object after every event.
package main

import (
	"context"
	"errors"
	"fmt"
	"sort"
	"strings"
	"time"

	"github.com/sheerbytes/sheerbytes/internal/app"
	"github.com/sheerbytes/sheerbytes/internal/verif/vlib"
	vrt "github.com/sheerbytes/sheerbytes/internal/verif/vrt"
)

type Event struct {
	Kind string `json:"k"` // joined accept left ok fail tick tickttl
	Peer string `json:"p,omitempty"`
	Nth  int    `json:"n,omitempty"` // ok/fail: which in-flight invocation (0 = oldest, 1 = newest)
}

func (e Event) String() string {
	switch e.Kind {
	case "ok", "fail":
		which := "oldest"
		if e.Nth == 1 {
			which = "newest"
		}
		return e.Kind + "(" + which + ")"
	case "tick", "tickttl":
		return e.Kind
	}
	return e.Kind + "(" + e.Peer + ")"
}

type invocation struct {
	id          int
	peer        string
	ctx         context.Context
	release     bool
	result      error
	returned    bool
	liveAtStart bool
	leftSince   bool
}

type world struct {
	s       *app.SnapshotSender
	max     int
	clock   time.Time
	epoch   int
	seenAt  map[string]int
	inv     []*invocation
	starts  []string // start order (peers)
	accepts []string // accept order of peers currently waiting (for FIFO)
	viol    []string
	violCls []string
	afterEv int
}

var cur *world

func (w *world) violate(cls, msg string) {
	for _, c := range w.violCls {
		if c == cls {
			return
		}
	}
	w.violCls = append(w.violCls, cls)
	w.viol = append(w.viol, msg)
}

func (w *world) inflight() []*invocation {
	var out []*invocation
	for _, iv := range w.inv {
		if !iv.returned && !iv.release {
			out = append(out, iv)
		}
	}
	return out
}

const ttl = 10 * time.Minute

func newWorld(max int) *world {
	w := &world{max: max, clock: time.Unix(1_700_000_000, 0), seenAt: map[string]int{}}
	w.s = app.VerifNewSender(max, ttl, func() time.Time { return w.clock }, func(ctx context.Context, peer string) error {
		iv := &invocation{id: len(w.inv), peer: peer, ctx: ctx, liveAtStart: ctx.Err() == nil}
		w.inv = append(w.inv, iv)
		w.starts = append(w.starts, peer)
		// (an invocation that starts on an already cancelled context is legitimate when its receiver left
		// in that instant; whether a receiver counted as transferring really has a live invocation is
		// judged at quiescence by I2)
		// FIFO among receivers that waited together
		for i, p := range w.accepts {
			if p == peer {
				if i != 0 {
					w.violate("not-fifo", fmt.Sprintf("%s started before %s although %s accepted earlier", peer, w.accepts[0], w.accepts[0]))
				}
				w.accepts = append(w.accepts[:i], w.accepts[i+1:]...)
				break
			}
		}
		vrt.Block("transfer-in-progress", func() bool { return iv.release })
		iv.returned = true
		return iv.result
	})
	return w
}

func (w *world) apply(e Event) bool {
	ctx := context.Background()
	switch e.Kind {
	case "joined":
		w.s.VerifJoined(e.Peer)
	case "accept":
		sn := w.s.VerifSnapshot()
		if sn.Status[e.Peer] != "TRANSFERRING" {
			already := false
			for _, p := range w.accepts {
				if p == e.Peer {
					already = true
				}
			}
			if !already {
				w.accepts = append(w.accepts, e.Peer)
			}
		}
		w.s.VerifAccept(ctx, e.Peer)
	case "left":
		for i, p := range w.accepts {
			if p == e.Peer {
				w.accepts = append(w.accepts[:i], w.accepts[i+1:]...)
				break
			}
		}
		for _, iv := range w.inv {
			if iv.peer == e.Peer && !iv.returned {
				iv.leftSince = true
			}
		}
		w.s.VerifLeft(e.Peer)
	case "ok", "fail":
		fl := w.inflight()
		if len(fl) == 0 {
			return false
		}
		iv := fl[0]
		if e.Nth == 1 {
			if len(fl) < 2 {
				return false
			}
			iv = fl[len(fl)-1]
		}
		if e.Kind == "fail" {
			iv.result = errors.New("transfer failed")
		}
		iv.release = true
	case "tick":
		w.s.VerifCleanup()
	case "tickttl":
		w.clock = w.clock.Add(ttl + time.Second)
		w.epoch++
		w.s.VerifCleanup()
	}
	vrt.Sleep(time.Millisecond) // run everything to quiescence
	w.afterEv++
	w.check(e)
	return true
}

// applyPair releases an in-flight transfer and delivers a handler event without waiting for
// quiescence in between; the invariants are checked once both have settled.
func (w *world) applyPair(fin, e2 Event) bool {
	fl := w.inflight()
	if len(fl) == 0 {
		return false
	}
	iv := fl[0]
	if fin.Nth == 1 {
		if len(fl) < 2 {
			return false
		}
		iv = fl[len(fl)-1]
	}
	if fin.Kind == "fail" {
		iv.result = errors.New("transfer failed")
	}
	iv.release = true
	ctx := context.Background()
	switch e2.Kind {
	case "joined":
		w.s.VerifJoined(e2.Peer)
	case "accept":
		sn := w.s.VerifSnapshot()
		if sn.Status[e2.Peer] != "TRANSFERRING" {
			already := false
			for _, p := range w.accepts {
				if p == e2.Peer {
					already = true
				}
			}
			if !already {
				w.accepts = append(w.accepts, e2.Peer)
			}
		}
		w.s.VerifAccept(ctx, e2.Peer)
	case "left":
		for i, p := range w.accepts {
			if p == e2.Peer {
				w.accepts = append(w.accepts[:i], w.accepts[i+1:]...)
				break
			}
		}
		for _, v := range w.inv {
			if v.peer == e2.Peer && !v.returned {
				v.leftSince = true
			}
		}
		w.s.VerifLeft(e2.Peer)
	case "tick":
		w.s.VerifCleanup()
	case "tickttl":
		w.clock = w.clock.Add(ttl + time.Second)
		w.s.VerifCleanup()
	}
	vrt.Sleep(time.Millisecond)
	w.check(Event{Kind: "pair"})
	return true
}

func (w *world) check(e Event) {
	sn := w.s.VerifSnapshot()
	// I1
	live := 0
	for _, iv := range w.inv {
		if !iv.returned && iv.ctx.Err() == nil {
			live++
		}
	}
	if live > w.max {
		w.violate("too-many-live-transfers", fmt.Sprintf("%d live transfer invocations with max-receivers %d", live, w.max))
	}
	if len(sn.Active) > w.max {
		w.violate("too-many-slots", fmt.Sprintf("%d active slots with max-receivers %d", len(sn.Active), w.max))
	}
	// I2
	inQueue := map[string]int{}
	for _, p := range sn.Queue {
		inQueue[p]++
	}
	inActive := map[string]bool{}
	for _, p := range sn.Active {
		inActive[p] = true
	}
	liveInv := map[string]int{}
	for _, iv := range w.inv {
		if !iv.returned && iv.ctx.Err() == nil {
			liveInv[iv.peer]++
		}
	}
	for p, st := range sn.Status {
		switch st {
		case "QUEUED":
			if inQueue[p] != 1 || inActive[p] {
				w.violate("queued-status-inconsistent", fmt.Sprintf("%s has status QUEUED but is %d times in the queue, slot=%v", p, inQueue[p], inActive[p]))
			}
		case "TRANSFERRING":
			if !inActive[p] || liveInv[p] != 1 || inQueue[p] != 0 {
				w.violate("transferring-status-inconsistent", fmt.Sprintf("%s has status TRANSFERRING but slot=%v live invocations=%d queued=%d", p, inActive[p], liveInv[p], inQueue[p]))
			}
		default:
			if inQueue[p] != 0 || inActive[p] || liveInv[p] != 0 {
				w.violate("idle-status-inconsistent", fmt.Sprintf("%s has status %s but queued=%d slot=%v live invocations=%d", p, st, inQueue[p], inActive[p], liveInv[p]))
			}
		}
	}
	for p := range inQueue {
		if sn.Status[p] != "QUEUED" {
			w.violate("queue-entry-without-queued-status", fmt.Sprintf("%s is in the queue with status %q", p, sn.Status[p]))
		}
	}
	for p := range inActive {
		if sn.Status[p] != "TRANSFERRING" {
			w.violate("slot-without-transferring-status", fmt.Sprintf("%s owns a slot with status %q", p, sn.Status[p]))
		}
	}
	// I3: work conserving at quiescence
	if len(sn.Queue) > 0 && len(sn.Active) < w.max {
		w.violate("slot-free-while-queue-waits", fmt.Sprintf("queue %v waits although only %d of %d slots are busy", sn.Queue, len(sn.Active), w.max))
	}
	// I4
	if e.Kind == "left" {
		if inQueue[e.Peer] != 0 || inActive[e.Peer] {
			w.violate("leaver-still-scheduled", fmt.Sprintf("%s left but queued=%d slot=%v", e.Peer, inQueue[e.Peer], inActive[e.Peer]))
		}
		for _, iv := range w.inv {
			if iv.peer == e.Peer && iv.leftSince && !iv.returned && iv.ctx.Err() == nil {
				w.violate("leaver-transfer-not-cancelled", fmt.Sprintf("%s left but its running transfer was not cancelled", e.Peer))
			}
		}
	}
}

// canon: the property-relevant part of the real object (timestamps reduced to stale / fresh).
func (w *world) canon() string {
	sn := w.s.VerifSnapshot()
	var ps []string
	for p, st := range sn.Status {
		stale := w.clock.Sub(sn.LastSeen[p]) > ttl
		ps = append(ps, fmt.Sprintf("%s=%s/%v", p, st, stale))
	}
	sort.Strings(ps)
	var ivs []string
	for _, iv := range w.inv {
		if !iv.returned {
			ivs = append(ivs, fmt.Sprintf("%s:%v", iv.peer, iv.ctx.Err() == nil))
		}
	}
	return fmt.Sprintf("%s|q=%v|a=%v|inv=%v|acc=%v", strings.Join(ps, ","), sn.Queue, sn.Active, ivs, w.accepts)
}

var res *vlib.Result

type replayT struct {
	Max     int     `json:"max"`
	History []Event `json:"history"`
	Pair    []Event `json:"pair,omitempty"`
	Choices []int   `json:"choices,omitempty"`
}

// curPair is set while a concurrent pair is explored (so that report can record it for replay).
var curPair []Event

func runHistory(max int, hist []Event) (*world, bool) {
	w := newWorld(max)
	cur = w
	okAll := true
	for _, e := range hist {
		if !w.apply(e) {
			okAll = false
			break
		}
	}
	return w, okAll
}

func report(max int, hist []Event, w *world, x *vrt.Exec) {
	hs := make([]string, len(hist))
	for i, e := range hist {
		hs[i] = e.String()
	}
	rp := replayT{Max: max, History: hist}
	if curPair != nil {
		// a concurrent pair: the history up to the pair, the two events, and the schedule
		rp = replayT{Max: max, History: hist[:len(hist)-1], Pair: curPair, Choices: append([]int{}, x.Choices()...)}
	}
	switch x.Outcome {
	case "ok":
	case "panic":
		res.Violate("panic", "c12/admission", map[string]any{"panic": x.Detail}, fmt.Sprintf("max=%d %s: panic %s", max, strings.Join(hs, " "), x.Detail), rp)
		return
	case "deadlock", "stall":
		res.Violate("hang", "c12/admission", map[string]any{"blocked": x.Blocked}, fmt.Sprintf("max=%d %s: %s %v", max, strings.Join(hs, " "), x.Outcome, x.Blocked), rp)
		return
	default:
		res.InfraError("outcome %s %s", x.Outcome, x.Detail)
		return
	}
	for i, msg := range w.viol {
		res.Violate("invariant", "c12/admission", map[string]any{"class": w.violCls[i]}, fmt.Sprintf("max-receivers=%d after [%s]: %s", max, strings.Join(hs, " "), msg), rp)
	}
}

func alphabet(peers []string) []Event {
	var out []Event
	for _, p := range peers {
		out = append(out, Event{Kind: "joined", Peer: p}, Event{Kind: "accept", Peer: p}, Event{Kind: "left", Peer: p})
	}
	out = append(out, Event{Kind: "ok", Nth: 0}, Event{Kind: "fail", Nth: 0}, Event{Kind: "ok", Nth: 1}, Event{Kind: "fail", Nth: 1}, Event{Kind: "tick"}, Event{Kind: "tickttl"})
	return out
}

func main() {
	res = vlib.Parse()
	res.Part = "admission"
	res.Rule = "breadth-first search over event histories (joined, accept, left per receiver a,b,c; success/failure of the oldest/newest in-flight transfer; cleanup tick with the clock advanced by 0 or TTL+1; and, from the state in which four receivers a-d have joined, accept / left / finish only) on the real SnapshotSender for max-receivers 1 and 2, each event run to quiescence under the controlled scheduler, states deduplicated by the canonical form of the real object; non-trivial = distinct canonical state"
	if vlib.F.Replay != "" {
		var art struct {
			Violation struct {
				Replay replayT `json:"replay"`
			} `json:"violation"`
		}
		if err := vlib.ReadJSON(vlib.F.Replay, &art); err != nil {
			res.InfraError("replay: %v", err)
			res.Finish()
		}
		rp := art.Violation.Replay
		var w *world
		if len(rp.Pair) == 2 {
			pc := cfg()
			pc.LockPoints = true
			x, err := vrt.Replay(pc, rp.Choices, func() {
				var ok bool
				w, ok = runHistory(rp.Max, rp.History)
				if ok {
					w.applyPair(rp.Pair[0], rp.Pair[1])
				}
			})
			if err != nil {
				res.InfraError("replay: %v", err)
				res.Finish()
			}
			res.Eval()
			curPair = rp.Pair
			hist := append(append([]Event{}, rp.History...), Event{Kind: rp.Pair[0].Kind + "||" + rp.Pair[1].Kind, Peer: rp.Pair[1].Peer, Nth: rp.Pair[0].Nth})
			report(rp.Max, hist, w, x)
			res.Finish()
		}
		x := vrt.Run(cfg(), nil, func() { w, _ = runHistory(rp.Max, rp.History) })
		res.Eval()
		report(rp.Max, rp.History, w, x)
		res.Finish()
	}
	thorough := vlib.F.Tier == "thorough"
	maxDepth := 8
	if thorough {
		maxDepth = 10
	}
	pairDepth := 3
	if thorough {
		pairDepth = 5
	}
	budget := 170 * time.Second
	if thorough {
		budget = 28 * time.Minute
	}
	deadline := time.Now().Add(budget)
	// Configurations: the full alphabet over three receivers for max-receivers 1 and 2, and a
	// fourth receiver (a waiting line of up to three) from the state "all four have joined" with
	// the accept / leave / finish events only.
	type conf struct {
		max   int
		root  []Event
		alpha []Event
		depth int
		pairs bool
	}
	alpha3 := alphabet([]string{"a", "b", "c"})
	var alpha4 []Event
	var root4 []Event
	for _, p := range []string{"a", "b", "c", "d"} {
		root4 = append(root4, Event{Kind: "joined", Peer: p})
		alpha4 = append(alpha4, Event{Kind: "accept", Peer: p}, Event{Kind: "left", Peer: p})
	}
	alpha4 = append(alpha4, Event{Kind: "ok", Nth: 0}, Event{Kind: "fail", Nth: 0})
	confs := []conf{{1, nil, alpha3, maxDepth, true}, {2, nil, alpha3, maxDepth, true}, {1, root4, alpha4, maxDepth - 1, false}, {2, root4, alpha4, maxDepth - 2, false}}
	var states, trans int64
	cut := false
	for mi, cf := range confs {
		if !vlib.Mine(mi) {
			continue
		}
		max, alpha, maxDepth := cf.max, cf.alpha, cf.depth
		seen := map[string]bool{}
		type node struct{ hist []Event }
		frontier := []node{{cf.root}}
		pairRoots := []node{{cf.root}}
		if !cf.pairs {
			pairRoots = nil
		}
		var w0 *world
		vrt.Run(cfg(), nil, func() { w0, _ = runHistory(max, cf.root) })
		seen[w0.canon()] = true
		states++
		for depth := 0; depth < maxDepth && len(frontier) > 0 && !cut; depth++ {
			var next []node
			for _, nd := range frontier {
				if time.Now().After(deadline) {
					cut = true
					break
				}
				for _, e := range alpha {
					hist := append(append([]Event{}, nd.hist...), e)
					var w *world
					applicable := false
					x := vrt.Run(cfg(), nil, func() { w, applicable = runHistory(max, hist) })
					if !applicable && x.Outcome == "ok" {
						continue
					}
					trans++
					res.Eval()
					report(max, hist, w, x)
					if x.Outcome != "ok" || len(w.viol) > 0 {
						continue // do not expand beyond a violating state
					}
					k := w.canon()
					if !seen[k] {
						seen[k] = true
						states++
						res.Nontrivial(fmt.Sprintf("%d|%s", max, k))
						next = append(next, node{hist})
						if cf.pairs && len(hist) <= pairDepth {
							pairRoots = append(pairRoots, node{hist})
						}
						res.SampleSpread(states, map[string]any{"max_receivers": max, "history": histStr(hist), "state": k})
					}
				}
			}
			frontier = next
			res.Extra[fmt.Sprintf("conf%d_max%d_depth%d_new_states", mi, max, depth+1)] = float64(len(next))
		}
		// Concurrent pairs: from every state up to pairDepth, a transfer returns (its goroutine tail
		// drops and re-takes the lock mid-update) while a handler event is delivered; all
		// interleavings within delay bound 2, lock acquisitions being scheduling points.
		var pairExecs int64
		for _, nd := range pairRoots {
			if cut {
				break
			}
			for _, fin := range []Event{{Kind: "ok", Nth: 0}, {Kind: "fail", Nth: 0}, {Kind: "ok", Nth: 1}, {Kind: "fail", Nth: 1}} {
				for _, e2 := range alpha {
					if e2.Kind == "ok" || e2.Kind == "fail" {
						continue
					}
					if time.Now().After(deadline) {
						cut = true
						break
					}
					pc := cfg()
					pc.LockPoints = true
					var w *world
					applicable := false
					ex := &vrt.Explorer{Cfg: pc, Bound: 2, Deadline: deadline, Root: func() {
						w, applicable = runHistory(max, nd.hist)
						if !applicable {
							return
						}
						applicable = w.applyPair(fin, e2)
					}}
					ex.Visit = func(x *vrt.Exec) bool {
						if !applicable && x.Outcome == "ok" {
							return false
						}
						pairExecs++
						hist := append(append([]Event{}, nd.hist...), Event{Kind: fin.Kind + "||" + e2.Kind, Peer: e2.Peer, Nth: fin.Nth})
						report(max, hist, w, x)
						return true
					}
					curPair = []Event{fin, e2}
					ex.Run()
					curPair = nil
					trans += ex.Execs
				}
			}
		}
		res.EvalN(pairExecs)
		res.Extra[fmt.Sprintf("conf%d_max%d_concurrent_pair_executions", mi, max)] = float64(pairExecs)
	}
	res.States = states
	res.Trans = trans
	res.Validated = trans
	res.Extra["max_depth"] = fmt.Sprint(maxDepth)
	if cut {
		res.NotExhaustive("time budget reached before the depth bound")
	}
	res.Finish()
}

func histStr(h []Event) string {
	s := make([]string, len(h))
	for i, e := range h {
		s[i] = e.String()
	}
	return strings.Join(s, " ")
}

func cfg() vrt.Config {
	c := vrt.DefaultConfig()
	c.LockPoints = false
	c.IdleHorizon = int64(time.Hour)
	return c
}
