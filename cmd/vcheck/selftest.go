package main

import (
	"fmt"
	"os"
	"os/exec"
)

// cmdSelftest re-checks every seeded change of /verif/seeded on a scratch copy of the
// repository (see seedmatrix.sh) and prints the resulting table.
func cmdSelftest(args []string) int {
	tier := "quick"
	if len(args) > 0 {
		tier = args[0]
	}
	c := exec.Command("/bin/bash", verifDir+"/seedmatrix.sh", tier)
	c.Stdout, c.Stderr = os.Stdout, os.Stderr
	if err := c.Run(); err != nil {
		fmt.Fprintln(os.Stderr, "selftest:", err)
		return 2
	}
	b, _ := os.ReadFile(verifDir + "/seeded/RESULTS.txt")
	os.Stdout.Write(b)
	return 0
}
