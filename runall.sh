#!/bin/bash
# runall.sh [tier]: run every registered property check of the given tier, one summary line each
export GOFLAGS=-mod=mod GOPROXY=off
tier=${1:-quick}
cd /verif
for id in $(python3 -c "import json;print(' '.join(c['property_id'] for c in json.load(open('MANIFEST.json'))['checks']))") CONF; do
  s=$(date +%s)
  ./bin/vcheck $id --tier $tier > /tmp/runall_$id.log 2>&1; rc=$?
  e=$(( $(date +%s) - s ))
  echo "$id rc=$rc ${e}s $(grep -c '^KNOWN-FINDING' /tmp/runall_$id.log) known | $(tail -1 /tmp/runall_$id.log | cut -c1-160)"
done
