package vrt

import (
	"fmt"
	"time"
)

// Explorer enumerates all executions of root whose total deviation cost is <= Bound
// (delay bounding: option k at a scheduling point costs k; alternative select arms, timer-first
// and environment answers cost 1). Depth-first, prefix replay, no state caching.
type Explorer struct {
	Cfg   Config
	Bound int
	Root  func()
	// Visit is called after every execution; returning false stops the exploration.
	Visit func(x *Exec) bool
	// Shard restricts the exploration to the level-1 subtrees i with i%NShards==Shard (the
	// default execution belongs to shard 0).
	Shard, NShards int
	Deadline       time.Time
	MaxExecs       int64

	Execs      int64
	Nodes      int64 // distinct nodes of the explored schedule tree
	Steps      int64
	Points     int64
	MaxPoints  int
	Outcomes   map[string]int64
	Traces     map[uint64]struct{}
	Complete   bool
	Stopped    string
	Divergence []string
}

type frame struct {
	prefix []int
	cost   int
}

// Run explores; it returns when the bounded space is exhausted (Complete=true) or a limit hit.
func (e *Explorer) Run() {
	if e.Outcomes == nil {
		e.Outcomes = map[string]int64{}
	}
	if e.Traces == nil {
		e.Traces = map[uint64]struct{}{}
	}
	if e.NShards < 1 {
		e.NShards = 1
	}
	e.Complete = true
	stack := []frame{{nil, 0}}
	level1 := 0
	for len(stack) > 0 {
		f := stack[len(stack)-1]
		stack = stack[:len(stack)-1]
		if !e.Deadline.IsZero() && time.Now().After(e.Deadline) {
			e.Complete, e.Stopped = false, "deadline"
			return
		}
		if e.MaxExecs > 0 && e.Execs >= e.MaxExecs {
			e.Complete, e.Stopped = false, "max-executions"
			return
		}
		isRoot := len(f.prefix) == 0
		var x *Exec
		if isRoot && e.Shard != 0 {
			// other shards still need the default run to learn its choice points
			x = Run(e.Cfg, nil, e.Root)
		} else {
			x = Run(e.Cfg, f.prefix, e.Root)
			e.account(x)
			e.Nodes += int64(len(x.choices)-len(f.prefix)) + 1
			if x.Outcome == "diverged" {
				e.Divergence = append(e.Divergence, fmt.Sprintf("prefix %v: %s", f.prefix, x.Diverged))
				continue
			}
			if e.Visit != nil && !e.Visit(x) {
				e.Complete, e.Stopped = false, "visitor"
				return
			}
		}
		// children: alternatives at points >= len(prefix)
		cost := f.cost
		// costs accumulated along the chosen path from len(prefix) on
		var children []frame
		for i := len(f.prefix); i < len(x.choices); i++ {
			pt := x.points[i]
			for alt := 1; alt < pt.n; alt++ {
				nc := cost + pt.costs[alt]
				if nc > e.Bound {
					continue
				}
				if isRoot {
					level1++
					if (level1-1)%e.NShards != e.Shard {
						continue
					}
				}
				np := make([]int, i+1)
				copy(np, x.choices[:i])
				np[i] = alt
				children = append(children, frame{np, nc})
			}
			cost += pt.costs[x.choices[i]]
		}
		// push in reverse so that the earliest alternative is explored first
		for i := len(children) - 1; i >= 0; i-- {
			stack = append(stack, children[i])
		}
	}
}

func (e *Explorer) account(x *Exec) {
	e.Execs++
	e.Steps += int64(x.steps)
	e.Points += int64(len(x.choices))
	if len(x.choices) > e.MaxPoints {
		e.MaxPoints = len(x.choices)
	}
	e.Outcomes[x.Outcome]++
	if len(e.Traces) < 1<<20 {
		e.Traces[x.trace] = struct{}{}
	}
}

// Replay runs one recorded schedule twice and checks that it is deterministic.
func Replay(cfg Config, choices []int, root func()) (*Exec, error) {
	a := Run(cfg, choices, root)
	b := Run(cfg, choices, root)
	if a.trace != b.trace || a.Outcome != b.Outcome || a.Detail != b.Detail {
		return a, fmt.Errorf("replay not deterministic: %s/%s/%x vs %s/%s/%x", a.Outcome, a.Detail, a.trace, b.Outcome, b.Detail, b.trace)
	}
	return a, nil
}
