#!/usr/bin/env python3
# seedprompts.py <dir>: creates a scratch worktree of /repo and a prompt file per property under <dir>
# for an independent agent that is to write one property-breaking change (it sees nothing of /verif).
import json,os,subprocess,glob,sys
base=sys.argv[1]
os.makedirs(base,exist_ok=True)
props={json.loads(l)['id']:json.loads(l) for l in open('/verif/properties.jsonl')}
prev={}
for d in sorted(glob.glob('/verif/seeded/*/meta.json')):
    m=json.load(open(d)); prev.setdefault(m['property'],[]).append(m['summary'])
T='''You are helping to test a verification framework by producing ONE realistic, subtle bug ("seeded change") in a Go code base. Work ONLY inside the git worktree {BASE}/{ID} (a scratch checkout of the project samsungplay/Thruflux, Go module github.com/sheerbytes/sheerbytes: a P2P file-transfer toolkit - signaling server plus CLI that moves manifests of files over multi-stream QUIC with a custom chunk protocol and resumable sidecars). Do not read or write anything under /verif or /repo. Do not commit. Do not use `git stash` (the stash is shared with other checkouts); use `git diff > p; git apply -R p` instead.

Environment: no network. In every shell call first run: export GOFLAGS=-mod=mod GOPROXY=off   (do NOT set GOSUMDB or GOTOOLCHAIN). Build: (cd {BASE}/{ID} && go build ./...). The project's full test suite: (cd {BASE}/{ID} && go test -vet=off -count=1 $(go list ./... | grep -v /SEED)) takes about 15-60 s (the machine is busy, allow more) and passes on the unchanged tree. Put a tiny go.mod (module seedscratch) into the SEED/ directory so that go test ./... does not try to compile files copied there.

The semantic property your change must BREAK:

{PROP}

Task:
1. Read the code the property is anchored in (and the code around it: the property may also be broken from a neighbouring function, another package that feeds it, or a helper it relies on).
2. Make a small, realistic change to the NON-test source of the project (the kind of mistake a developer could plausibly commit: an off-by-one, a check moved after the action it guards, a wrong comparison, a lock released too early, state updated in the wrong order, a forgotten case, an error swallowed, a default changed, a refactoring that looks equivalent but is not, two sites that each look fine alone but disagree...) so that the property no longer holds. The change must:
   - still compile, and the project's existing test suite must STILL PASS unchanged (run it and make sure; do not edit or delete any existing test);
   - NOT be exposed at once by ordinary use: it must need something specific to manifest - a particular interleaving, a crash/fault at a particular point, a multi-step sequence of operations, an unusual input or boundary value, an unusual configuration, or two cooperating sites. Avoid changes that break every transfer / every call.
   - be a change to program logic (not comments, logging or error-message text), touching as few lines as possible (ideally 1-10 lines).
   - be of a DIFFERENT kind and in a DIFFERENT place than these changes, which other people already made for this property (do not redo any of them; aim at a clause, input dimension or code path of the property that none of them touches): {PREV}
   - {HINT}
3. Write a demonstration: a NEW Go test file (package-internal tests are fine, e.g. {BASE}/{ID}/internal/<pkg>/seed_demo_test.go) or a small program, that FAILS with your change and PASSES without it (verify both). If the bug needs a particular interleaving, the demo may force it deterministically in any way you like (sleeps, channels, hooks local to the test), or loop until it hits; it must fail reliably (>= 9 of 10 runs) with the change.
4. Produce these files in {BASE}/{ID}/SEED/ :
   - patch.diff : output of `git diff` containing ONLY the change to the non-test source (not the demo, not SEED/). It must apply with `git apply` to a clean checkout.
   - the demonstration file(s) (copy), plus demo_path.txt giving the path(s) relative to the repository root where each must be placed to run.
   - meta.json : {{"property": "{ID}", "summary": "<one sentence: what was changed>", "needs_to_manifest": "<what specific interleaving / fault / sequence / input is needed>", "demo_cmd": "<exact command to run the demo from the repo root>", "suite_passes_with_change": true, "demo_fails_with_change": true, "demo_passes_without_change": true}}
5. Leave the worktree with your change and the demo applied.

Your final answer: a short summary of the change, why the existing tests miss it, and the exact commands you ran to confirm (suite passes with change; demo fails with, passes without).
'''
for i,p in props.items():
    wt=f'{base}/{i}'
    if not os.path.exists(wt):
        subprocess.run(['git','-C','/repo','worktree','add','-q','--detach',wt],check=True)
    open(f'{base}/prompt_{i}.txt','w').write(T.format(BASE=base,ID=i,PROP=json.dumps(p,indent=1),PREV=' | '.join(prev.get(i,['(none)'])),HINT=os.environ.get('SEED_HINT','(no further hint)')))
print(len(props),'prompts under',base)
