//go:build verif

// Common transfer harness (DESIGN.md §3): the real SendManifestMultiStream and
// RecvManifestMultiStream run as two thread groups S and R under the controlled scheduler over
// the vquic environment model, wrapped by the repository's own transferquic and multiConn code.
package main

import (
	"bytes"
	"context"
	"fmt"
	"io"
	"log/slog"
	"os"
	"path/filepath"
	"sort"
	"strings"
	"time"

	"github.com/sheerbytes/sheerbytes/internal/transfer"
	"github.com/sheerbytes/sheerbytes/internal/transferquic"
	quic "github.com/sheerbytes/sheerbytes/internal/verif/venv/vquic"
	vrt "github.com/sheerbytes/sheerbytes/internal/verif/vrt"
	"github.com/sheerbytes/sheerbytes/pkg/manifest"
)

// Entry of a tree spec. Size < 0 means directory.
type Entry struct {
	Path string `json:"p"`
	Size int64  `json:"s"`
}

// Case is one transfer configuration.
type Case struct {
	Tree      []Entry `json:"tree"`
	Chunk     uint32  `json:"chunk"`
	Streams   int     `json:"streams"`
	Conns     int     `json:"conns"`
	// SmallThr: the sender's small-file threshold (0 = default 4 MiB); files above it take the
	// scheduler's weighted path
	SmallThr int64 `json:"small_threshold,omitempty"`
	// ChunkSeq: the chunk size the sender's parameter source answers at its k-th call (the last
	// value sticks): parameters are resolved once at the start and once per file
	ChunkSeq []uint32 `json:"chunk_seq,omitempty"`
	Resume    bool    `json:"resume"`     // receiver-side resume (the sender always asks, as in production)
	SendNoRes bool    `json:"send_nores"` // sender with Resume off (library default)
	NoRootDir bool    `json:"norootdir"`
	ScanPaths bool    `json:"scanpaths"`
	Pre       string  `json:"pre,omitempty"` // pre-existing output state: "", "complete", "partial"
	Tail      uint32  `json:"tail,omitempty"`
	LatencyMs int     `json:"latency_ms,omitempty"` // one-way network latency
}

func (c Case) String() string {
	var fs []string
	for _, e := range c.Tree {
		if e.Size < 0 {
			fs = append(fs, e.Path+"/")
		} else {
			fs = append(fs, fmt.Sprintf("%s:%d", e.Path, e.Size))
		}
	}
	seq := ""
	if len(c.ChunkSeq) > 0 {
		seq = fmt.Sprintf(" chunkseq=%v", c.ChunkSeq)
	}
	return fmt.Sprintf("tree[%s] chunk=%d%s streams=%d conns=%d resume=%v norootdir=%v scanpaths=%v pre=%s lat=%dms", strings.Join(fs, " "), c.Chunk, seq, c.Streams, c.Conns, c.Resume, c.NoRootDir, c.ScanPaths, c.Pre, c.LatencyMs)
}

var scratch string

func content(k int, size int64) []byte {
	b := make([]byte, size)
	for i := range b {
		b[i] = byte(1 + (31*(k+1)+7*i+i/251)%255)
	}
	return b
}

// Prepared is a case with its source tree built and scanned (done once, outside executions).
type Prepared struct {
	Case    Case
	SrcRoot string // directory that contains the shared root
	Root    string // the shared directory (or first path)
	M       manifest.Manifest
	Resolve func(string) string
	Paths   []string
	Files   map[string][]byte // rel path in the *output base* -> content
	Dirs    map[string]bool
	OutBase string // where the tree lands below the output dir ("" or root name)
}

var prepSeq int

func prepare(c Case) (*Prepared, error) {
	prepSeq++
	p := &Prepared{Case: c, Files: map[string][]byte{}, Dirs: map[string]bool{}}
	p.SrcRoot = filepath.Join(scratch, fmt.Sprintf("src%d", prepSeq))
	os.RemoveAll(p.SrcRoot)
	p.Root = filepath.Join(p.SrcRoot, "share")
	if err := os.MkdirAll(p.Root, 0755); err != nil {
		return nil, err
	}
	mt := time.Unix(1_600_000_000, 0)
	for k, e := range c.Tree {
		fp := filepath.Join(p.Root, filepath.FromSlash(e.Path))
		if e.Size < 0 {
			if err := os.MkdirAll(fp, 0755); err != nil {
				return nil, err
			}
			continue
		}
		if err := os.MkdirAll(filepath.Dir(fp), 0755); err != nil {
			return nil, err
		}
		if err := os.WriteFile(fp, content(k, e.Size), 0644); err != nil {
			return nil, err
		}
	}
	// fixed mtimes (ids depend on them)
	filepath.Walk(p.Root, func(q string, _ os.FileInfo, _ error) error { os.Chtimes(q, mt, mt); return nil })
	var err error
	prefix := ""
	if c.ScanPaths {
		p.Paths = []string{p.Root}
		p.M, err = manifest.ScanPaths(p.Paths)
		if err != nil {
			return nil, fmt.Errorf("ScanPaths: %w", err)
		}
		// without the app-level resolver the library joins rootPath and rel_path: use the parent
		p.Root = p.SrcRoot
		prefix = "share/"
		p.Dirs["share"] = true
	} else {
		p.M, err = manifest.Scan(p.Root)
		if err != nil {
			return nil, fmt.Errorf("Scan: %w", err)
		}
	}
	if !c.NoRootDir {
		p.OutBase = p.M.Root
	}
	for k, e := range c.Tree {
		if e.Size < 0 {
			p.Dirs[prefix+e.Path] = true
		} else {
			p.Files[prefix+e.Path] = content(k, e.Size)
		}
		// parents
		d := filepath.ToSlash(filepath.Dir(prefix + e.Path))
		for d != "." && d != "/" && d != "" {
			p.Dirs[d] = true
			d = filepath.ToSlash(filepath.Dir(d))
		}
	}
	return p, nil
}

// Outcome of one execution.
type Outcome struct {
	SendErr, RecvErr   error
	SendDone, RecvDone bool
	TreeDiff           string // "" = identical
	OutDir             string
}

var last *Outcome

var discardLogger = slog.New(slog.NewTextHandler(io.Discard, nil))

// Env lets a mode hook into the run (fault injection, scripted peers, observers).
type Env struct {
	Obs        quic.Observer
	BeforeRun  func(p *Prepared, outDir string)
	SenderCtx  func(ctx context.Context, cancel context.CancelFunc)
	RecvCtx    func(ctx context.Context, cancel context.CancelFunc)
	AfterSetup func(sc, rc []*quic.Conn)
	SkipSender bool
	SkipRecv   bool
	Extra      func(sconn, rconn transfer.Conn) // scripted peer thread bodies started by the mode
	SendOpts   func(o *transfer.Options)
	RecvOpts   func(o *transfer.Options)
}

func sendOpts(p *Prepared) transfer.Options {
	o := transfer.Options{ChunkSize: p.Case.Chunk, ParallelFiles: p.Case.Streams, Resume: !p.Case.SendNoRes, ResumeVerifyTail: p.Case.Tail}
	if p.Resolve != nil {
		o.ResolveFilePath = p.Resolve
	}
	if p.Case.SmallThr > 0 {
		o.SmallThreshold = p.Case.SmallThr
	}
	if seq := p.Case.ChunkSeq; len(seq) > 0 {
		k := 0
		streams := p.Case.Streams
		o.ParamSource = func() transfer.RuntimeParams {
			cs := seq[len(seq)-1]
			if k < len(seq) {
				cs = seq[k]
			}
			k++
			return transfer.RuntimeParams{ChunkSize: cs, ParallelFiles: streams}
		}
	}
	return o
}

func recvOpts(p *Prepared) transfer.Options {
	return transfer.Options{Resume: p.Case.Resume, NoRootDir: p.Case.NoRootDir, HashAlg: "crc32c", ParallelFiles: p.Case.Streams}
}

// runTransfer is the body of one execution.
func runTransfer(p *Prepared, env *Env) *Outcome {
	o := &Outcome{}
	last = o
	c := p.Case
	o.OutDir = filepath.Join(scratch, "out")
	os.RemoveAll(o.OutDir)
	os.MkdirAll(o.OutDir, 0755)
	if env != nil && env.BeforeRun != nil {
		env.BeforeRun(p, o.OutDir)
	}
	nconn := c.Conns
	if nconn < 1 {
		nconn = 1
	}
	var sc, rc []*quic.Conn
	var sconns, rconns []transfer.Conn
	for i := 0; i < nconn; i++ {
		cl, sv := quic.NewPair(fmt.Sprintf("conn%d", i))
		if env != nil && env.Obs != nil {
			cl.Obs, sv.Obs = env.Obs, env.Obs
		}
		cl.Latency, sv.Latency = time.Duration(c.LatencyMs)*time.Millisecond, time.Duration(c.LatencyMs)*time.Millisecond
		// the host (sender) dials, the joining side (receiver) listens
		sc = append(sc, cl)
		rc = append(rc, sv)
		tc, err := transferquic.NewDialer(cl, discardLogger).Dial(context.Background(), "peer")
		if err != nil {
			panic(err)
		}
		sconns = append(sconns, tc)
		rconns = append(rconns, transferquic.VerifWrapConn(sv, discardLogger))
	}
	if env != nil && env.AfterSetup != nil {
		env.AfterSetup(sc, rc)
	}
	var sconn, rconn transfer.Conn = sconns[0], rconns[0]
	if nconn > 1 {
		var err error
		if sconn, err = transfer.NewMultiConn(sconns); err != nil {
			panic(err)
		}
		if rconn, err = transfer.NewMultiConn(rconns); err != nil {
			panic(err)
		}
	}
	var wg vrt.WaitGroup
	if env == nil || !env.SkipSender {
		wg.Add(1)
		vrt.GoNamed("S", "S", func() {
			defer wg.Done()
			ctx, cancel := vrt.WithCancel(context.Background())
			defer cancel()
			if env != nil && env.SenderCtx != nil {
				env.SenderCtx(ctx, cancel)
			}
			// production passes "." and an absolute resolver; without resolver the root itself
			root := p.Root
			so := sendOpts(p)
			if env != nil && env.SendOpts != nil {
				env.SendOpts(&so)
			}
			o.SendErr = transfer.SendManifestMultiStream(ctx, sconn, root, p.M, so)
			o.SendDone = true
			vrt.Emit("S.return", o.SendErr)
			// mirrors the defer chain of runICEQUICTransfer: multi.Close / transferConn.Close
			sconn.Close()
			for _, q := range sconns {
				q.Close()
			}
		})
	}
	if env == nil || !env.SkipRecv {
		wg.Add(1)
		vrt.GoNamed("R", "R", func() {
			defer wg.Done()
			ctx, cancel := vrt.WithCancel(context.Background())
			defer cancel()
			if env != nil && env.RecvCtx != nil {
				env.RecvCtx(ctx, cancel)
			}
			ro := recvOpts(p)
			if env != nil && env.RecvOpts != nil {
				env.RecvOpts(&ro)
			}
			_, o.RecvErr = transfer.RecvManifestMultiStream(ctx, rconn, o.OutDir, ro)
			o.RecvDone = true
			vrt.Emit("R.return", o.RecvErr)
			rconn.Close()
			for _, q := range rconns {
				q.Close()
			}
		})
	}
	if env != nil && env.Extra != nil {
		env.Extra(sconn, rconn)
	}
	wg.Wait()
	if (o.SendErr == nil || o.RecvErr == nil) && (env == nil || (!env.SkipSender && !env.SkipRecv)) {
		o.TreeDiff = compareTree(p, o.OutDir)
	}
	return o
}

// compareTree walks the output base (minus the resume metadata directory) and compares with the
// expected tree: same relative paths incl. empty directories, same bytes, nothing else.
func compareTree(p *Prepared, outDir string) string {
	base := filepath.Join(outDir, p.OutBase)
	var diffs []string
	seenF := map[string]bool{}
	seenD := map[string]bool{}
	err := filepath.Walk(base, func(q string, info os.FileInfo, err error) error {
		if err != nil {
			diffs = append(diffs, "walk: "+err.Error())
			return nil
		}
		rel, _ := filepath.Rel(base, q)
		rel = filepath.ToSlash(rel)
		if rel == "." {
			return nil
		}
		if info.IsDir() && info.Name() == ".thruflux_resumedata" {
			return filepath.SkipDir
		}
		if info.IsDir() {
			seenD[rel] = true
			if !p.Dirs[rel] {
				diffs = append(diffs, "unexpected dir "+rel)
			}
			return nil
		}
		seenF[rel] = true
		want, ok := p.Files[rel]
		if !ok {
			diffs = append(diffs, "unexpected file "+rel)
			return nil
		}
		got, err := os.ReadFile(q)
		if err != nil {
			diffs = append(diffs, "unreadable "+rel)
			return nil
		}
		if len(got) != len(want) {
			diffs = append(diffs, fmt.Sprintf("%s: length %d, want %d", rel, len(got), len(want)))
		} else if !bytes.Equal(got, want) {
			i := 0
			for i < len(got) && got[i] == want[i] {
				i++
			}
			diffs = append(diffs, fmt.Sprintf("%s: content differs at byte %d", rel, i))
		}
		return nil
	})
	if err != nil {
		diffs = append(diffs, err.Error())
	}
	if p.OutBase != "" {
		// with a root dir nothing else may appear next to it in the output directory
		es, _ := os.ReadDir(outDir)
		for _, e := range es {
			if e.Name() != p.OutBase && e.Name() != ".thruflux_resumedata" {
				diffs = append(diffs, "unexpected entry next to the root dir: "+e.Name())
			}
		}
	}
	for f := range p.Files {
		if !seenF[f] {
			diffs = append(diffs, "missing file "+f)
		}
	}
	for d := range p.Dirs {
		if !seenD[d] {
			diffs = append(diffs, "missing dir "+d)
		}
	}
	sort.Strings(diffs)
	if len(diffs) > 4 {
		diffs = append(diffs[:4], fmt.Sprintf("... %d more", len(diffs)-4))
	}
	return strings.Join(diffs, "; ")
}

// errNorm strips the variable parts of an error text: scratch paths, names of the case's files,
// numbers.
func errNorm(err error, c Case) string {
	if err == nil {
		return "nil"
	}
	s := err.Error()
	for _, cut := range []string{"/dev/shm", "/tmp"} {
		for {
			i := strings.Index(s, cut)
			if i < 0 {
				break
			}
			j := i
			for j < len(s) && s[j] != ' ' && s[j] != ':' {
				j++
			}
			s = s[:i] + "PATH" + s[j:]
		}
	}
	for _, e := range c.Tree {
		for _, n := range []string{e.Path, filepath.Base(e.Path), strings.ToValidUTF8(e.Path, "\uFFFD")} {
			if n != "" && n != "." {
				s = replaceWord(s, n, "<path>")
			}
		}
	}
	var b strings.Builder
	prevDigit := false
	for _, r := range s {
		if r >= '0' && r <= '9' {
			if !prevDigit {
				b.WriteByte('N')
			}
			prevDigit = true
			continue
		}
		prevDigit = false
		b.WriteRune(r)
	}
	s = b.String()
	if len(s) > 140 {
		s = s[:140]
	}
	return s
}

// replaceWord replaces the occurrences of name that are not part of a longer word (a file called
// "a" must not turn "range" into "r<path>nge").
func replaceWord(s, name, by string) string {
	isW := func(c byte) bool {
		return c >= 'a' && c <= 'z' || c >= 'A' && c <= 'Z' || c >= '0' && c <= '9' || c == '_' || c == '<' || c == '>'
	}
	var b strings.Builder
	for i := 0; i < len(s); {
		if strings.HasPrefix(s[i:], name) {
			before := i > 0 && isW(s[i-1]) && isW(name[0])
			after := i+len(name) < len(s) && isW(s[i+len(name)]) && isW(name[len(name)-1])
			if !before && !after {
				b.WriteString(by)
				i += len(name)
				continue
			}
		}
		b.WriteByte(s[i])
		i++
	}
	return b.String()
}

// secondary reports whether an error is only the echo of the peer going away or of a local
// cancellation (the interesting error is then the other side's).
func secondary(err error) bool {
	if err == nil {
		return true
	}
	s := err.Error()
	for _, m := range []string{"Application error 0x0", "context canceled", "EOF", "closed pipe", "no recent network activity"} {
		if strings.Contains(s, m) {
			return true
		}
	}
	return false
}

// failureSig is the root-cause signature of a failed transfer: the primary error(s) only.
func failureSig(o *Outcome, c Case) map[string]any {
	sig := map[string]any{}
	ps, pr := !secondary(o.SendErr), !secondary(o.RecvErr)
	switch {
	case ps && pr:
		sig["send"], sig["recv"] = errNorm(o.SendErr, c), errNorm(o.RecvErr, c)
	case ps:
		sig["send"] = errNorm(o.SendErr, c)
	case pr:
		sig["recv"] = errNorm(o.RecvErr, c)
	default:
		sig["send"], sig["recv"] = classSecondary(o.SendErr), classSecondary(o.RecvErr)
	}
	return sig
}

func classSecondary(err error) string {
	if err == nil {
		return "nil"
	}
	s := err.Error()
	switch {
	case strings.Contains(s, "Application error 0x0"):
		return "peer-closed"
	case strings.Contains(s, "context canceled"):
		return "cancelled"
	case strings.Contains(s, "no recent network activity"):
		return "idle-timeout"
	case strings.Contains(s, "EOF"):
		return "eof"
	}
	return "closed"
}

// hangClass names the root cause of a hang from the blocked sites (most specific rule first);
// unknown shapes keep the full site list so that they stay distinct.
func hangClass(blocked []string) map[string]any {
	has := func(sub string) bool {
		for _, b := range blocked {
			if strings.Contains(b, sub) {
				return true
			}
		}
		return false
	}
	switch {
	case has("fileWaitRegistry).wait"):
		return map[string]any{"class": "receiver-parks-on-chunk-or-request-for-finished-or-unknown-file"}
	case has("vquic.(*Conn).AcceptStream") && has("RecvManifestMultiStream:"):
		return map[string]any{"class": "receiver-main-blocked-in-AcceptStream"}
	}
	return map[string]any{"blocked": blocked}
}

func copyTree(src, dst string) error {
	return filepath.Walk(src, func(q string, info os.FileInfo, err error) error {
		if err != nil {
			return err
		}
		rel, _ := filepath.Rel(src, q)
		t := filepath.Join(dst, rel)
		if info.IsDir() {
			return os.MkdirAll(t, 0755)
		}
		b, err := os.ReadFile(q)
		if err != nil {
			return err
		}
		return os.WriteFile(t, b, info.Mode())
	})
}

// newConnPair returns the two transfer.Conn ends of a fresh vquic connection (sender side dials).
func newConnPair() (transfer.Conn, transfer.Conn) {
	cl, sv := quic.NewPair("conn0")
	tc, err := transferquic.NewDialer(cl, discardLogger).Dial(context.Background(), "peer")
	if err != nil {
		panic(err)
	}
	return tc, transferquic.VerifWrapConn(sv, discardLogger)
}

// wrapPair wraps an existing vquic pair with the repository's transferquic types.
func wrapPair(cl, sv *quic.Conn) (transfer.Conn, transfer.Conn) {
	tc, err := transferquic.NewDialer(cl, discardLogger).Dial(context.Background(), "peer")
	if err != nil {
		panic(err)
	}
	return tc, transferquic.VerifWrapConn(sv, discardLogger)
}
