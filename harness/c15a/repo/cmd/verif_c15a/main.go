//go:build verif

// C15 part (a): decoder level. Valid encodings of every record, of the control header and of
// resume metadata are mutated exhaustively (every truncation; every byte replaced by each value
// of a small alphabet; every 16/32-bit length or count field set to its extremes) and fed to the
// real decoders from a stream that ends after the given bytes. Oracle: the decoder returns
// (error or value), does not panic, and does not allocate out of proportion to the input.
package main

import (
	"bytes"
	"context"
	"fmt"
	"os"
	"os/exec"
	"path/filepath"
	"runtime"
	"strings"
	"time"

	"github.com/sheerbytes/sheerbytes/internal/transfer"
	"github.com/sheerbytes/sheerbytes/internal/verif/vlib"
	"github.com/sheerbytes/sheerbytes/pkg/manifest"
)

type mem struct{ bytes.Buffer }

func (m *mem) Close() error { return nil }

var res *vlib.Result
var dir string

type target struct {
	name   string
	decode func(b []byte) error
}

func encode(recs ...any) []byte {
	var m mem
	for _, r := range recs {
		if err := transfer.VerifWriteRecord(&m, r); err != nil {
			panic(err)
		}
	}
	return m.Bytes()
}

func decodeRecords(b []byte) error {
	m := &mem{}
	m.Write(b)
	for {
		_, _, err := transfer.VerifReadControlMessage(m)
		if err != nil {
			return err
		}
		if m.Len() == 0 {
			return nil
		}
	}
}

func decodeHeader(b []byte) error {
	m := &mem{}
	m.Write(b)
	_, err := transfer.VerifReadControlHeader(m)
	return err
}

func decodeSidecar(b []byte) error {
	p := filepath.Join(dir, "x.sbxmap")
	os.WriteFile(p, b, 0644)
	_, err := transfer.LoadSidecar(p)
	return err
}

func decodeLegacyManifest(b []byte) error {
	m := &mem{}
	m.Write(b)
	out := filepath.Join(dir, "legacy")
	os.MkdirAll(out, 0755)
	ctx, cancel := context.WithTimeout(context.Background(), 5*time.Second)
	defer cancel()
	_, err := transfer.RecvManifest(ctx, m, out, nil)
	return err
}

func decodeLegacyFile(b []byte) error {
	m := &mem{}
	m.Write(b)
	out := filepath.Join(dir, "legacyf")
	os.MkdirAll(out, 0755)
	ctx, cancel := context.WithTimeout(context.Background(), 5*time.Second)
	defer cancel()
	_, err := transfer.RecvFile(ctx, m, out)
	return err
}

var memBefore runtime.MemStats
var memAfter runtime.MemStats

// run feeds input to a decoder and applies the oracle.
func run(t target, base string, mutation string, input []byte) {
	res.Eval()
	res.Nontrivial(t.name + "|" + base + "|" + mutation)
	var pan any
	done := make(chan struct{})
	var err error
	var alloc uint64
	go func() {
		defer close(done)
		defer func() { pan = recover() }()
		runtime.ReadMemStats(&memBefore)
		err = t.decode(input)
		runtime.ReadMemStats(&memAfter)
		alloc = memAfter.TotalAlloc - memBefore.TotalAlloc
	}()
	select {
	case <-done:
	case <-time.After(20 * time.Second):
		res.Violate("hang", "c15/decoder", map[string]any{"decoder": t.name, "class": "blocks-on-ended-input"},
			fmt.Sprintf("%s on %s/%s: no return within 20 s although the input has ended", t.name, base, mutation), map[string]any{"decoder": t.name, "input": vlib.Hex(clip(input))})
		return
	}
	_ = err
	if pan != nil {
		res.Violate("panic", "c15/decoder", map[string]any{"decoder": t.name, "panic": firstLine(fmt.Sprint(pan))},
			fmt.Sprintf("%s on %s/%s: panic %v", t.name, base, mutation, pan), map[string]any{"decoder": t.name, "input": vlib.Hex(clip(input))})
		return
	}
	limit := uint64(1<<20) + 64*uint64(len(input))
	if alloc > limit {
		res.Violate("memory", "c15/decoder", map[string]any{"decoder": t.name, "class": allocClass(alloc)},
			fmt.Sprintf("%s on %s/%s: allocated %d bytes for %d bytes of input (limit %d)", t.name, base, mutation, alloc, len(input), limit), map[string]any{"decoder": t.name, "input": vlib.Hex(clip(input))})
	}
}

func allocClass(a uint64) string {
	switch {
	case a >= 1<<32:
		return ">=4GiB"
	case a >= 1<<30:
		return ">=1GiB"
	case a >= 1<<24:
		return ">=16MiB"
	}
	return ">1MiB"
}

func clip(b []byte) []byte {
	if len(b) > 96 {
		return b[:96]
	}
	return b
}

func firstLine(s string) string {
	if i := strings.Index(s, "\n"); i >= 0 {
		s = s[:i]
	}
	if len(s) > 100 {
		s = s[:100]
	}
	return s
}

func main() {
	res = vlib.Parse()
	res.Part = "decoder"
	res.Rule = "valid encodings of every control record, the control header, resume metadata and the legacy stream headers, mutated by every truncation, every byte replaced by each of {00,01,7f,80,ff,orig-1,orig+1}, and every aligned 16/32-bit window set to {0,1,max-1,max}; non-trivial = the input differs from the valid one; distinct by (decoder, base, mutation)"
	dir = os.Getenv("VERIF_SCRATCH")
	if dir == "" {
		dir, _ = os.MkdirTemp("/dev/shm", "c15a")
		defer os.RemoveAll(dir)
	}
	// corpus
	bases := map[string][]byte{}
	bases["FileBegin"] = encode(transfer.FileBegin{RelPath: "dir/file.bin", FileSize: 1234, ChunkSize: 4, StreamID: 77, HashAlg: 1})
	bases["FileEnd"] = encode(transfer.FileEnd{StreamID: 77, CRC32: 5})
	bases["FileDone"] = encode(transfer.FileDone{StreamID: 77, OK: false, ErrMsg: "boom"})
	bases["FileResumeInfo"] = encode(transfer.FileResumeInfo{FileID: "0123456789abcdef", StreamID: 77, TotalChunks: 20, Bitmap: []byte{0xff, 0x0f, 0x00}, LastVerifiedChunk: 11, LastVerifiedHash: 99})
	bases["ResumeRequest"] = encode(transfer.ResumeRequest{FileID: "0123456789abcdef", StreamID: 77})
	bases["Credit"] = encode(transfer.Credit{StreamID: 1, Credits: 2})
	bases["CreditBatch"] = encode(transfer.CreditBatch{Entries: []transfer.Credit{{StreamID: 1, Credits: 2}, {StreamID: 3, Credits: 4}}})
	bases["DataStreams"] = encode(transfer.DataStreams{Count: 2})
	bases["End"] = encode(nil)
	bases["Sequence"] = encode(transfer.DataStreams{Count: 1}, transfer.FileBegin{RelPath: "a", FileSize: 4, ChunkSize: 4, StreamID: 9}, transfer.FileEnd{StreamID: 9}, nil)
	var hm mem
	transfer.VerifWriteControlHeader(&hm, manifest.Manifest{Root: "share", FileCount: 1, TotalBytes: 4, Items: []manifest.FileItem{{RelPath: "a", Size: 4, ID: "0123456789abcdef"}}})
	header := hm.Bytes()
	scp := filepath.Join(dir, "valid.sbxmap")
	sc, err := transfer.CreateSidecar(scp, "0123456789abcdef", 100, 4)
	if err != nil {
		res.InfraError("%v", err)
		res.Finish()
	}
	sc.MarkComplete(3)
	sc.Flush()
	sidecar, _ := os.ReadFile(scp)
	legacyM := append([]byte("SBM1"), 0, 0, 0, 2, '{', '}', 0xFF)
	legacyF := append([]byte("SBX1"), 0, 1, 'f', 0, 0, 0, 0, 0, 0, 0, 1, 'x', 0, 0, 0, 0)

	type job struct {
		t    target
		base string
		data []byte
	}
	var jobs []job
	recT := target{"readControlMessage", decodeRecords}
	for name, b := range bases {
		jobs = append(jobs, job{recT, name, b})
	}
	jobs = append(jobs, job{target{"readControlHeader", decodeHeader}, "header", header})
	jobs = append(jobs, job{target{"LoadSidecar", decodeSidecar}, "sidecar", sidecar})
	jobs = append(jobs, job{target{"RecvManifest(legacy)", decodeLegacyManifest}, "legacy-manifest", legacyM})
	jobs = append(jobs, job{target{"RecvFile(legacy)", decodeLegacyFile}, "legacy-file", legacyF})
	// The cases are numbered deterministically; a worker subprocess executes the cases of this
	// shard from a start index on and logs each index before executing it, so that a fatal runtime
	// error (out of memory is not recoverable in Go) is attributed to its input.
	worker := os.Getenv("VERIF_C15A_FROM") != ""
	from := 0
	fmt.Sscan(os.Getenv("VERIF_C15A_FROM"), &from)
	var progress *os.File
	if worker {
		progress, _ = os.OpenFile(os.Getenv("VERIF_C15A_PROGRESS"), os.O_WRONLY|os.O_CREATE|os.O_TRUNC, 0644)
	}
	describe := map[int]string{}
	n := 0
	do := func(t target, base, mutation string, data []byte) {
		n++
		if !vlib.Mine(n) {
			return
		}
		if !worker {
			describe[n] = t.name + " " + base + "/" + mutation + " input=" + vlib.Hex(clip(data))
			return
		}
		if n < from {
			return
		}
		fmt.Fprintf(progress, "%d\n", n)
		run(t, base, mutation, data)
		res.SampleSpread(int64(n), map[string]any{"decoder": t.name, "base": base, "mutation": mutation})
	}
	for _, j := range jobs {
		b := j.data
		if err := j.t.decode(b); err != nil && !strings.HasPrefix(j.t.name, "Recv") {
			res.InfraError("%s rejects its valid input %s: %v", j.t.name, j.base, err)
			continue
		}
		for l := 0; l < len(b); l++ {
			do(j.t, j.base, fmt.Sprintf("truncate@%d", l), b[:l])
		}
		for i := 0; i < len(b); i++ {
			for _, v := range []int{0x00, 0x01, 0x7f, 0x80, 0xff, int(b[i]) - 1, int(b[i]) + 1} {
				if v < 0 || v > 255 || byte(v) == b[i] {
					continue
				}
				d := append([]byte(nil), b...)
				d[i] = byte(v)
				do(j.t, j.base, fmt.Sprintf("byte@%d=%02x", i, v), d)
			}
		}
		for i := 0; i+2 <= len(b); i++ {
			for _, w := range []int{2, 4} {
				if i+w > len(b) {
					continue
				}
				for _, pat := range [][]byte{{0, 0, 0, 0}, {0, 0, 0, 1}, {0xff, 0xff, 0xff, 0xfe}, {0xff, 0xff, 0xff, 0xff}} {
					d := append([]byte(nil), b...)
					copy(d[i:i+w], pat[4-w:])
					if bytes.Equal(d, b) {
						continue
					}
					do(j.t, j.base, fmt.Sprintf("field%d@%d=%x", w*8, i, pat[4-w:]), d)
				}
			}
		}
	}
	if worker {
		res.WriteTo(os.Getenv("VERIF_C15A_RESULT"))
		os.Exit(0)
	}
	// coordinator
	start := 0
	for restarts := 0; restarts < 500; restarts++ {
		prog := filepath.Join(dir, "progress")
		out := filepath.Join(dir, "worker.json")
		os.Remove(out)
		cmd := exec.Command(os.Args[0], os.Args[1:]...)
		cmd.Env = append(os.Environ(), fmt.Sprintf("VERIF_C15A_FROM=%d", start), "VERIF_C15A_PROGRESS="+prog, "VERIF_C15A_RESULT="+out)
		var stderr bytes.Buffer
		cmd.Stderr = &stderr
		err := cmd.Run()
		if err == nil {
			var w vlib.Result
			if rerr := vlib.ReadJSON(out, &w); rerr != nil {
				res.InfraError("worker result: %v", rerr)
			} else {
				res.Merge(&w)
			}
			break
		}
		// the worker died: attribute to the last case it announced
		pb, _ := os.ReadFile(prog)
		lines := strings.Fields(string(pb))
		if len(lines) == 0 {
			res.InfraError("worker died before its first case: %v %s", err, firstLine(stderr.String()))
			break
		}
		last := 0
		fmt.Sscan(lines[len(lines)-1], &last)
		cause := firstLine(stderr.String())
		res.EvalN(int64(len(lines)))
		decoder := strings.SplitN(describe[last], " ", 2)[0]
		res.Violate("crash", "c15/decoder", map[string]any{"decoder": decoder, "cause": cause},
			fmt.Sprintf("process killed by a fatal runtime error on %s: %s", describe[last], cause), map[string]any{"case": describe[last]})
		start = last + 1
	}
	res.Finish()
}
