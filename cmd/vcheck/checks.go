package main

import "time"

// PartSpec is one harness run contributing to a check.
type PartSpec struct {
	Name          string // part name (unique within the check; used in known-finding "check" routing)
	Harness       string // directory under /verif/harness
	Instrument    bool   // build through the E1 instrumenter (controlled scheduler)
	InstrPkgs     []string
	Probes        []string
	FsPoints      bool
	ModRequires   []string
	ImportMap     map[string]string
	RenameMain    map[string]string
	HTTPSeams     bool
	MainPkg       string // build target (default ./cmd/verif_<harness>)
	Race          bool
	Shards        int
	ProcsPerShard int
	GoMaxProcs    int
	Args          string // -args for quick
	ArgsThorough  string // -args for thorough (default: Args)
	Tiers         string // "" = both, else "quick" or "thorough"
	Timeout       time.Duration
	MemLimitKB    int
	Generate      func(w *work, dir string, ov map[string]string) (map[string]string, error)
}

type CheckSpec struct {
	Level       string
	Assumptions []string
	Parts       []*PartSpec
}

var checks = map[string]*CheckSpec{}

func register(id string, c *CheckSpec) { checks[id] = c }

func init() {
	register("C19", &CheckSpec{
		Level: "exploration",
		Assumptions: []string{
			"inline count expressions are located by name (assignments to totalChunks containing a division) and re-emitted verbatim; an expression written in another shape is not sliced (the list found is in coverage.parts.geometry.inline_count_expressions_found)",
			"sizes above 1500 bytes and chunk sizes above 130 are covered on the boundary lattice only, not exhaustively",
		},
		Parts: []*PartSpec{{Name: "geometry", Harness: "c19", Shards: 8, Generate: genCountExprs}},
	})
}

func init() {
	register("C18", &CheckSpec{
		Level: "exploration",
		Assumptions: []string{
			"field alphabets are boundary values (0,1,max-1,max; lengths 0,1,2,255,256,limit-1,limit); interior values are not enumerated",
			"values the encoder itself rejects (paths over 1024 bytes, paths containing '..') are outside the domain and only counted",
			"the signaling envelope is exercised over valid Unicode strings only (JSON text is defined over Unicode); manifest paths include non-UTF-8 byte strings because Linux file names may contain them",
		},
		Parts: []*PartSpec{{Name: "roundtrip", Harness: "c18", Shards: 16}},
	})
}

func init() {
	register("C13", &CheckSpec{
		Level: "exploration",
		Assumptions: []string{
			"FIFOs/devices are not in the tree alphabet (reading one blocks; the size-versus-content clause is undecidable for them)",
			"a given path means what it points to (os.Stat); entries beneath it are taken without following nested links",
			"cases in which ScanPaths itself returns an error are counted as refused (the sender aborts before offering a manifest)",
		},
		Parts: []*PartSpec{{Name: "scan", Harness: "c13", Shards: 16}},
	})
}

func init() {
	register("C11", &CheckSpec{
		Level: "model_checking",
		Assumptions: []string{
			"the scheduler preempts at synchronisation, channel, timer and goroutine operations only; plain-variable data races are covered by a separate free-running -race pass, not by this exploration",
			"delay bounding: executions needing more deviations from the default schedule than the completed bound are not covered",
			"scenario shapes: at most 3 worker threads and 2 operations per thread on one shared session",
		},
		Parts: []*PartSpec{{Name: "hub", Harness: "c11", Instrument: true, Shards: 16, GoMaxProcs: 1,
			ModRequires: []string{"github.com/anishathalye/porcupine@v1.3.0"},
			Args: "bound=2", ArgsThorough: "bound=3"}},
	})
}

var quicMap = map[string]string{"github.com/quic-go/quic-go": "github.com/sheerbytes/sheerbytes/internal/verif/venv/vquic"}

func xferPart(name, mode string, shards int) *PartSpec {
	return &PartSpec{Name: name, Harness: "xfer", Instrument: true, Shards: shards, GoMaxProcs: 1, ImportMap: quicMap,
		Args: "mode=" + mode, Timeout: 45 * time.Minute}
}

var xferAssumptions = []string{
	"QUIC is replaced by the vquic environment model (stream visibility on first frame of this-or-higher stream, FIN/close/error semantics, data loss on close); the repository's own transferquic and multiConn wrappers run unmodified on top of it",
	"the scheduler preempts at channel, select, contended-lock, timer, goroutine, transport and (where enabled) file-system operations; plain-variable data races are outside the exploration",
	"delay bounding: executions needing more deviations than the stated bound are not covered; virtual time: timers fire when nothing else can run or as a cost-1 deviation",
}

func xferFsPart(name, mode string, shards int) *PartSpec {
	p := xferPart(name, mode, shards)
	p.FsPoints = true
	return p
}

func init() {
	register("C05", &CheckSpec{Level: "model_checking", Assumptions: append([]string{"crash model: a process kill leaves exactly the effects of the file-system calls completed so far (WriteFile and WriteAt are split into halves, rename is atomic); power-loss reordering is out of scope"}, xferAssumptions...), Parts: []*PartSpec{xferFsPart("c05", "c05", 16), xferFsPart("metadata-under-concurrent-flushers", "c05s", 16)}})
	register("C04", &CheckSpec{Level: "fault_enumeration", Assumptions: append([]string{"crash model: a process kill leaves exactly the effects of the file-system calls completed so far (WriteFile and WriteAt are split into halves, rename is atomic); power-loss reordering is out of scope", "the interrupted runs follow the default schedule in the quick tier (deviation bound 1 for the completion runs of depth-1 states in the thorough tier)"}, xferAssumptions...), Parts: []*PartSpec{xferFsPart("c04", "c04", 8)}})
	register("C07", &CheckSpec{Level: "exploration", Assumptions: []string{"the output directory sits 6 levels deep in a scratch jail and no attack string climbs more than 4 levels; absolute attack paths point into the jail", "every mutating file-system call of the receiver goes through the instrumented os seams (path log) and the jail is snapshotted before and after"}, Parts: []*PartSpec{xferFsPart("hostile-sender", "c07", 16)}})
	c17 := xferPart("dispatch", "c17", 16)
	c17.Probes = []string{"internal/transfer.sendFileState.nextChunkToSend", "internal/transfer.sendFileState.markChunkDone", "internal/transfer.sendFileState.trySendEnd"}
	register("C17", &CheckSpec{Level: "model_checking", Assumptions: append([]string{"probes are inserted by name at sendFileState.nextChunkToSend / markChunkDone / trySendEnd; if one of them no longer exists the check reports an infrastructure error instead of passing"}, xferAssumptions...), Parts: []*PartSpec{c17}})
	register("C03", &CheckSpec{Level: "model_checking", Assumptions: xferAssumptions, Parts: []*PartSpec{xferPart("c03", "c03", 16)}})
	register("C01", &CheckSpec{Level: "model_checking", Assumptions: xferAssumptions, Parts: []*PartSpec{xferPart("c01", "c01", 16)}})
	register("C02", &CheckSpec{Level: "fault_enumeration", Assumptions: append([]string{"faults are injected at byte positions of the vquic streams as written by the real code; one fault per execution"}, xferAssumptions...), Parts: []*PartSpec{xferPart("c02", "c02", 16), xferPart("receiver-only", "c02r", 16)}})
}

func init() {
	c06b := xferFsPart("resume-tamper", "c06", 16)
	register("C06", &CheckSpec{Level: "fault_enumeration", Assumptions: append([]string{"damage below the highest complete chunk is not detectable by design and is not demanded (the property promises the last recorded chunk only)"}, xferAssumptions...),
		Parts: []*PartSpec{{Name: "sidecar", Harness: "c06a", Shards: 8}, c06b}})
}

func init() {
	register("C15", &CheckSpec{Level: "fault_enumeration", Assumptions: append([]string{"decoder-level inputs are single mutations (truncation, one byte, one 16/32-bit window) of valid encodings; protocol-level inputs are record sequences up to length 3-4 over a fixed alphabet", "memory is judged by TotalAlloc growth during the call (limit 1 MiB + 64 x input bytes)"}, xferAssumptions...),
		Parts: []*PartSpec{{Name: "decoder", Harness: "c15a", Shards: 4, Timeout: 20 * time.Minute}, xferPart("protocol", "c15", 16)}})
}

func init() {
	register("C12", &CheckSpec{Level: "model_checking", Assumptions: []string{
		"the SnapshotSender is constructed as the repository's tests construct it (no signaling connection; transferFn is a harness stub that blocks until released and observes its context)",
		"every event is run to quiescence under the default schedule; interleavings inside one event are not enumerated by this part",
		"histories up to the depth bound over 3 receivers; states are merged when the scheduling fields of the real object (statuses, queue, slots, in-flight invocations, staleness) agree",
	}, Parts: []*PartSpec{{Name: "admission", Harness: "c12", Instrument: true, Shards: 4, GoMaxProcs: 1, ImportMap: quicMap, Timeout: 45 * time.Minute}}})
}

func init() {
	register("C08", &CheckSpec{Level: "model_checking", Assumptions: []string{
		"TLS is modelled by the vquic exporter: both ends of one connection export identical keying material, different connections export unrelated material (checked against real quic-go in the conformance suite); cryptographic strength of HMAC-SHA256 is assumed",
		"the attacker does not know the join code; it is an end point of its own TLS sessions and can compute any message for a code of its own choosing",
		"the ordering clause (no transfer byte before authentication) is decided for the extra-connection functions on the vquic byte log; for the primary connection inside runICEQUICTransfer / runTransfer it is not decided by this check (those regions are not drivable without ICE)",
	}, Parts: []*PartSpec{{Name: "auth", Harness: "c08", Instrument: true, Shards: 16, GoMaxProcs: 1, ImportMap: quicMap}}})
}

func init() {
	register("C09", &CheckSpec{Level: "model_checking", Assumptions: []string{
		"handshakes are modelled by the vquic network level: first flight, server-side completion (connection queued for Accept), client-side completion are separate scheduling points; a dial whose context is cancelled before the client side completes leaves an established server-side connection behind that the client closes",
		"the accepting side is the receiver's real acceptOnce closure (sliced verbatim out of runTransfer) followed by the commit/authenticate sequence of runTransfer reproduced in the harness; the delayed reverse dial of the receiver (500 ms) is not part of the harness",
	}, Parts: []*PartSpec{{Name: "race", Harness: "c09", Instrument: true, Shards: 16, GoMaxProcs: 1, ImportMap: quicMap,
		Generate: func(w *work, dir string, ov map[string]string) (map[string]string, error) {
			return sliceClosure(w, dir, "./internal/app", "runTransfer", "acceptOnce", "Verif_acceptOnce")
		}}}})
}

var c14store = &PartSpec{Name: "store", Harness: "c14s", Instrument: true, Shards: 6, GoMaxProcs: 1, ModRequires: []string{"github.com/anishathalye/porcupine@v1.3.0"}}

func init() {
	register("C14", &CheckSpec{Level: "model_checking", Assumptions: []string{
		"the instant t = expiry is treated as don't-care by the lifetime model",
		"scripted randomness replaces crypto/rand so that join-code collisions actually occur",
	}, Parts: []*PartSpec{c14store}})
}

var wsMap = map[string]string{
	"github.com/quic-go/quic-go":   "github.com/sheerbytes/sheerbytes/internal/verif/venv/vquic",
	"github.com/gorilla/websocket": "github.com/sheerbytes/sheerbytes/internal/verif/venv/vws",
}

func boxPart(name, mode string, shards int) *PartSpec {
	return &PartSpec{Name: name, Harness: "box", Instrument: true, Shards: shards, GoMaxProcs: 1, ImportMap: wsMap, HTTPSeams: true,
		RenameMain: map[string]string{"/cmd/thruserv": "verifServerMain"}, MainPkg: "./cmd/thruserv", Args: "mode=" + mode, Timeout: 45 * time.Minute}
}

var boxAssumptions = []string{
	"the real thruserv main(), handleWebSocket, hub and store run in one process under the controlled scheduler; net/http server and client calls are routed in-process (vhttp) and gorilla/websocket is replaced by the vws model (ordered delivery per direction, close => 1006 at the peer after queued frames, read limit, deadlines on the virtual clock)",
	"every event is run to quiescence before the next one except in the concurrent-pair parts, which explore all interleavings within delay bound 2",
}

func init() {
	register("C10", &CheckSpec{Level: "model_checking", Assumptions: boxAssumptions, Parts: []*PartSpec{boxPart("routing", "c10", 16)}})
	// CONF is not a property: it binds the environment and runtime models to the real libraries.
	register("CONF", &CheckSpec{Level: "model_checking", Assumptions: []string{"conformance of the verification runtime and environment models with native Go / quic-go / gorilla-websocket; not a property check"}, Parts: []*PartSpec{
		{Name: "go-native", Harness: "confgo", Instrument: false, Shards: 1, Args: "mode=native", Timeout: 10 * time.Minute},
		{Name: "go-model", Harness: "confgo", Instrument: true, Shards: 1, GoMaxProcs: 1, Args: "mode=model", Timeout: 20 * time.Minute},
		{Name: "quic-native", Harness: "confquic", Instrument: false, Shards: 1, Args: "mode=native", Timeout: 10 * time.Minute},
		{Name: "race-pass", Harness: "racepass", Instrument: false, Race: true, Shards: 1, Timeout: 30 * time.Minute},
		{Name: "ws-native", Harness: "confws", Instrument: false, Shards: 1, Args: "mode=native", Timeout: 10 * time.Minute},
		{Name: "ws-model", Harness: "confws", Instrument: true, ImportMap: wsMap, HTTPSeams: true, Shards: 1, GoMaxProcs: 1, Args: "mode=model", Timeout: 20 * time.Minute},
		{Name: "quic-model", Harness: "confquic", Instrument: true, ImportMap: quicMap, Shards: 1, GoMaxProcs: 1, Args: "mode=model", Timeout: 20 * time.Minute},
	}})
	register("C16", &CheckSpec{Level: "exploration", Assumptions: boxAssumptions, Parts: []*PartSpec{boxPart("configurations", "c16", 16)}})
	c14 := checks["C14"]
	c14.Parts = append(c14.Parts, boxPart("server", "c14", 16))
	c14.Assumptions = append(c14.Assumptions, boxAssumptions...)
}
