//go:build verif

package main

import (
	"encoding/json"
	"fmt"
	"sort"
	"strings"
	"time"

	websocket "github.com/sheerbytes/sheerbytes/internal/verif/venv/vws"
	"github.com/sheerbytes/sheerbytes/internal/verif/vlib"
	vrt "github.com/sheerbytes/sheerbytes/internal/verif/vrt"
	"github.com/sheerbytes/sheerbytes/pkg/protocol"
)

// ---- C10: signaling messages stay inside their session and carry the true sender ----

type TopoEv struct {
	Kind string `json:"k"` // connect | disconnect
	Sess int    `json:"s,omitempty"`
	Peer string `json:"p,omitempty"`
	Conn int    `json:"c,omitempty"` // disconnect: index among clients in creation order
}

func (e TopoEv) String() string {
	if e.Kind == "connect" {
		return fmt.Sprintf("connect(s%d,%s)", e.Sess, e.Peer)
	}
	return fmt.Sprintf("disconnect(#%d)", e.Conn)
}

type SendTest struct {
	From int       `json:"from"` // client index
	Kind string    `json:"kind"`
	To   string    `json:"to,omitempty"`
	Then *SendTest `json:"then,omitempty"` // a second frame sent on the same connection right after
}

func (t SendTest) String() string {
	s := fmt.Sprintf("#%d:%s(%s)", t.From, t.Kind, t.To)
	if t.Then != nil {
		s += fmt.Sprintf(" then %s(%s)", t.Then.Kind, t.Then.To)
	}
	return s
}

type c10World struct {
	sess    []sessionInfo
	clients []*Client
	viol    []string
	cls     []string
}

func (w *c10World) violate(c, m string) {
	for _, x := range w.cls {
		if x == c {
			return
		}
	}
	w.cls = append(w.cls, c)
	w.viol = append(w.viol, m)
}

func roleOf(p string) string {
	if p == "a" {
		return "sender"
	}
	return "receiver"
}

func c10Build(hist []TopoEv) *c10World {
	w := &c10World{}
	startServer([]string{"--session-timeout", "0", "--ws-connects-per-min", "0", "--session-creates-per-min", "0"})
	for i := 0; i < 2; i++ {
		s := createSession("")
		if s.Status != 201 {
			panic(fmt.Sprintf("create session: %d %s", s.Status, s.Body))
		}
		w.sess = append(w.sess, s)
	}
	for _, e := range hist {
		switch e.Kind {
		case "connect":
			c := connect(fmt.Sprintf("c%d", len(w.clients)), w.sess[e.Sess].Code, e.Peer, roleOf(e.Peer))
			c.Sess = e.Sess
			w.clients = append(w.clients, c)
		case "disconnect":
			if e.Conn < len(w.clients) {
				w.clients[e.Conn].close()
			}
		}
		settle()
	}
	for _, c := range w.clients {
		c.seen = len(c.Raw)
	}
	return w
}

// latest returns, per session, peer id -> index of the live client that is the current
// connection of that id (the reference routing model: last connect wins).
func (w *c10World) latest() []map[string]int {
	out := []map[string]int{{}, {}}
	for i, c := range w.clients {
		if c.conn == nil || c.Closed {
			continue
		}
		out[c.Sess][c.Peer] = i
	}
	// a replaced connection that is still open is not the latest; a later connect wins even if an
	// earlier one is still open. If the latest disconnected, the id is gone (the older connection
	// was unlinked when it was replaced).
	last := []map[string]int{{}, {}}
	for i, c := range w.clients {
		if c.conn != nil {
			last[c.Sess][c.Peer] = i
		}
	}
	for s := range out {
		for p, i := range out[s] {
			if last[s][p] != i {
				delete(out[s], p)
			}
		}
	}
	return out
}

func (w *c10World) newFrames(i int) []protocol.Envelope {
	c := w.clients[i]
	var out []protocol.Envelope
	for _, raw := range c.Raw[c.seen:] {
		var env protocol.Envelope
		if json.Unmarshal([]byte(raw), &env) == nil {
			out = append(out, env)
		}
	}
	c.seen = len(c.Raw)
	return out
}

func (w *c10World) runTest(t SendTest) {
	author := w.clients[t.From]
	if author.conn == nil || author.Closed {
		return
	}
	lat := w.latest()
	expect := map[int][]string{} // client index -> expected msg ids in order
	expectErr := 0
	sentTo := map[string]string{}      // msg id -> the to field its author wrote
	sentPayload := map[string]string{} // msg id -> the payload its author wrote
	other := 1 - author.Sess
	// one performs one test kind with message ids m1, m2 (first message) or n1, n2 (second)
	one := func(t SendTest, pfx string) {
		mk := func(id, to string) protocol.Envelope {
			env, _ := protocol.NewEnvelope("offer", pfx+id, map[string]string{"sdp": pfx + id})
			env.To = to
			sentTo[pfx+id] = to
			sentPayload[pfx+id] = string(env.Payload)
			return env
		}
		add := func(i int, ids ...string) { expect[i] = append(expect[i], ids...) }
		bcast := func(id string) {
			for p, i := range lat[author.Sess] {
				if p != author.Peer {
					add(i, id)
				}
			}
		}
		switch t.Kind {
		case "addressed", "addressed-twice":
			ids := []string{pfx + "1"}
			if t.Kind == "addressed-twice" {
				ids = []string{pfx + "1", pfx + "2"}
			}
			for _, id := range ids {
				author.sendEnv(mk(strings.TrimPrefix(id, pfx), t.To))
			}
			if i, ok := lat[author.Sess][t.To]; ok {
				add(i, ids...)
			} else {
				expectErr += len(ids)
			}
		case "broadcast":
			author.sendEnv(mk("1", ""))
			bcast(pfx + "1")
		case "broadcast-no-payload":
			env := mk("1", "")
			env.Payload = nil
			sentPayload[pfx+"1"] = ""
			author.sendEnv(env)
			bcast(pfx + "1")
		case "forged-from":
			env := mk("1", t.To)
			env.From = "evil"
			author.sendEnv(env)
			if t.To == "" {
				bcast(pfx + "1")
			} else if i, ok := lat[author.Sess][t.To]; ok {
				add(i, pfx+"1")
			} else {
				expectErr++
			}
		case "forged-session":
			env := mk("1", t.To)
			env.SessionID = w.sess[other].ID
			author.sendEnv(env)
			if t.To == "" {
				bcast(pfx + "1")
			} else if i, ok := lat[author.Sess][t.To]; ok {
				add(i, pfx+"1")
			} else {
				expectErr++
			}
		case "wrong-version":
			env := mk("1", t.To)
			env.V = 2
			author.sendEnv(env)
		case "missing-type":
			env := mk("1", t.To)
			env.Type = ""
			author.sendEnv(env)
		case "missing-id":
			env := mk("", t.To)
			env.MsgID = ""
			author.sendEnv(env)
		case "empty-object":
			author.sendRaw(websocket.TextMessage, []byte("{}"))
		case "not-json":
			author.sendRaw(websocket.TextMessage, []byte("{not json"))
		case "binary":
			b, _ := json.Marshal(mk("1", t.To))
			author.sendRaw(websocket.BinaryMessage, b)
		}
	}
	one(t, "m")
	if t.Then != nil {
		// a second frame on the same connection: nothing of the first may carry over
		one(*t.Then, "n")
	}
	settle()
	for i, c := range w.clients {
		frames := w.newFrames(i)
		var got []string
		errs := 0
		for _, f := range frames {
			switch {
			case f.From == "server" && f.Type == protocol.TypeError:
				errs++
				if i != t.From {
					w.violate("error-frame-to-non-author", fmt.Sprintf("%s: error frame delivered to %s (%s in session %d), author is %s", t, c.Name, c.Peer, c.Sess, author.Name))
				}
			case f.From == "server":
				// server-generated notifications are not judged here
			default:
				got = append(got, f.MsgID)
				if c.Sess != author.Sess {
					w.violate("delivered-to-another-session", fmt.Sprintf("%s: message %s of %s (session %d) delivered to %s in session %d", t, f.MsgID, author.Peer, author.Sess, c.Peer, c.Sess))
				}
				if f.From != author.Peer {
					w.violate("from-field-not-the-authors-identity", fmt.Sprintf("%s: recipient %s sees from=%q, the author connected as %q", t, c.Peer, f.From, author.Peer))
				}
				if to, ok := sentTo[f.MsgID]; ok && f.To != to {
					w.violate("to-field-altered", fmt.Sprintf("%s: message %s was written with to=%q and arrives at %s with to=%q", t, f.MsgID, to, c.Peer, f.To))
				}
				if pl, ok := sentPayload[f.MsgID]; ok {
					got := string(f.Payload)
					if got == "null" {
						got = ""
					}
					if got != pl {
						w.violate("payload-altered", fmt.Sprintf("%s: message %s was written with payload %q and arrives at %s with %q", t, f.MsgID, pl, c.Peer, got))
					}
				}
			}
		}
		want := expect[i]
		if strings.Join(got, ",") != strings.Join(want, ",") {
			cls := "misrouted"
			if len(got) > len(want) {
				cls = "delivered-where-not-expected"
			} else if len(got) < len(want) {
				cls = "lost"
			}
			if c.Sess == author.Sess || len(got) == 0 {
				w.violate(cls, fmt.Sprintf("%s: client %s (peer %s, session %d) received %v, routing model expects %v", t, c.Name, c.Peer, c.Sess, got, want))
			}
		}
		if i == t.From && errs != expectErr {
			w.violate("unknown-addressee-report", fmt.Sprintf("%s: author received %d error frames, expected %d", t, errs, expectErr))
		}
	}
}

func (w *c10World) canon() string {
	var parts []string
	lat := w.latest()
	for s := 0; s < 2; s++ {
		var ps []string
		for i, c := range w.clients {
			if c.Sess != s || c.conn == nil || c.Closed {
				continue
			}
			l := lat[s][c.Peer] == i
			ps = append(ps, fmt.Sprintf("%s/%v", c.Peer, l))
		}
		parts = append(parts, strings.Join(ps, ","))
	}
	return strings.Join(parts, "|")
}

func (w *c10World) tests() []SendTest {
	var out []SendTest
	for i, c := range w.clients {
		if c.conn == nil || c.Closed {
			continue
		}
		tos := map[string]bool{"zz": true, c.Peer: true}
		for _, o := range w.clients {
			if o.conn != nil && !o.Closed {
				tos[o.Peer] = true
			}
		}
		var tl []string
		for p := range tos {
			tl = append(tl, p)
		}
		sort.Strings(tl)
		for _, to := range tl {
			out = append(out, SendTest{From: i, Kind: "addressed", To: to}, SendTest{From: i, Kind: "forged-from", To: to}, SendTest{From: i, Kind: "forged-session", To: to})
		}
		// two frames in a row on one connection: the second must be judged on its own
		seqKinds := []SendTest{{Kind: "addressed", To: tl[0]}, {Kind: "broadcast"}, {Kind: "broadcast-no-payload"}, {Kind: "empty-object"}, {Kind: "missing-type", To: tl[0]}, {Kind: "wrong-version"}, {Kind: "forged-session", To: tl[0]}}
		for _, a := range seqKinds {
			for _, b := range seqKinds {
				b := b
				out = append(out, SendTest{From: i, Kind: a.Kind, To: a.To, Then: &b})
			}
		}
		out = append(out, SendTest{From: i, Kind: "empty-object"}, SendTest{From: i, Kind: "broadcast-no-payload"})
		out = append(out, SendTest{From: i, Kind: "addressed-twice", To: tl[0]}, SendTest{From: i, Kind: "broadcast", To: ""}, SendTest{From: i, Kind: "forged-from", To: ""}, SendTest{From: i, Kind: "forged-session", To: ""},
			SendTest{From: i, Kind: "wrong-version", To: ""}, SendTest{From: i, Kind: "missing-type", To: tl[0]}, SendTest{From: i, Kind: "missing-id", To: ""}, SendTest{From: i, Kind: "not-json", To: ""}, SendTest{From: i, Kind: "binary", To: tl[0]})
	}
	return out
}

type c10Replay struct {
	History []TopoEv  `json:"history"`
	Test    *SendTest `json:"test,omitempty"`
	Pair    []string  `json:"pair,omitempty"`
	Choices []int     `json:"choices,omitempty"`
}

var c10PairInfo []string

func c10Report(hist []TopoEv, t *SendTest, w *c10World, x *vrt.Exec, extra string) {
	hs := make([]string, len(hist))
	for i, e := range hist {
		hs[i] = e.String()
	}
	rp := c10Replay{History: hist, Test: t, Choices: append([]int{}, x.Choices()...), Pair: c10PairInfo}
	desc := strings.Join(hs, " ")
	if t != nil {
		desc += " then " + t.String()
	}
	desc += extra
	switch x.Outcome {
	case "ok":
	case "panic":
		res.Violate("panic", "box/c10", map[string]any{"panic": x.Detail}, fmt.Sprintf("[%s]: server panic %s", desc, x.Detail), rp)
		return
	case "deadlock", "stall":
		res.Violate("hang", "box/c10", map[string]any{"blocked": x.Blocked}, fmt.Sprintf("[%s]: %s %v", desc, x.Outcome, x.Blocked), rp)
		return
	default:
		res.InfraError("[%s]: outcome %s %s", desc, x.Outcome, x.Detail)
		return
	}
	if w == nil {
		return
	}
	for i, m := range w.viol {
		res.Violate("mismatch", "box/c10", map[string]any{"class": w.cls[i]}, fmt.Sprintf("after [%s]: %s", strings.Join(hs, " "), m), rp)
	}
}

func modeC10() {
	res.Rule = "breadth-first search over connection topologies (2 sessions x peers a,b,c x connect / reconnect with the same id / disconnect, at most 3 live connections per session) on the real server in a box; in every topology every send kind from every live connection (addressed to each present / absent / other-session / own id, twice in a row, broadcast, forged from, forged session id, wrong version, missing type or id, non-JSON, binary) is checked against the reference routing model; then concurrent pairs (send || disconnect / reconnect / send) from shallow topologies within delay bound 2; non-trivial = distinct topology x test"
	thorough := vlib.F.Tier == "thorough"
	depth := 4
	if thorough {
		depth = 5
	}
	budget := 170 * time.Second
	if thorough {
		budget = 28 * time.Minute
	}
	deadline := time.Now().Add(budget)
	var states, trans int64
	seen := map[string]bool{}
	type node struct{ hist []TopoEv }
	var all []node
	frontier := []node{{nil}}
	all = append(all, node{nil})
	seen["|"] = true
	for d := 0; d < depth; d++ {
		var next []node
		for _, nd := range frontier {
			// alphabet
			nclients := 0
			for _, e := range nd.hist {
				if e.Kind == "connect" {
					nclients++
				}
			}
			var alpha []TopoEv
			for s := 0; s < 2; s++ {
				for _, p := range []string{"a", "b", "c"} {
					alpha = append(alpha, TopoEv{Kind: "connect", Sess: s, Peer: p})
				}
			}
			for k := 0; k < nclients; k++ {
				alpha = append(alpha, TopoEv{Kind: "disconnect", Conn: k})
			}
			for _, e := range alpha {
				hist := append(append([]TopoEv{}, nd.hist...), e)
				var w *c10World
				x := vrt.Run(boxCfg(), nil, func() { w = c10Build(hist) })
				trans++
				if x.Outcome != "ok" {
					c10Report(hist, nil, w, x, "")
					continue
				}
				live := []int{0, 0}
				for _, c := range w.clients {
					if c.conn != nil && !c.Closed {
						live[c.Sess]++
					}
				}
				if live[0] > 3 || live[1] > 3 {
					continue
				}
				k := w.canon()
				if !seen[k] {
					seen[k] = true
					next = append(next, node{hist})
					all = append(all, node{hist})
				}
			}
		}
		frontier = next
	}
	if vlib.Mine(0) {
		states = int64(len(all))
		res.Extra["topologies"] = float64(len(all))
	}
	// send tests in every topology (sharded)
	cut := false
	for si, nd := range all {
		if !vlib.Mine(si) {
			continue
		}
		if time.Now().After(deadline) {
			cut = true
			break
		}
		var tests []SendTest
		vrt.Run(boxCfg(), nil, func() { tests = c10Build(nd.hist).tests() })
		for _, t := range tests {
			t := t
			var w *c10World
			x := vrt.Run(boxCfg(), nil, func() {
				w = c10Build(nd.hist)
				w.runTest(t)
			})
			trans++
			res.Eval()
			res.Nontrivial(fmt.Sprintf("%v|%s", nd.hist, t))
			c10Report(nd.hist, &t, w, x, "")
		}
		res.SampleSpread(int64(si), map[string]any{"topology": fmt.Sprint(nd.hist), "tests": len(tests)})
	}
	// concurrent pairs from shallow topologies
	var pairExecs int64
	pairDepth, pairBound := 2, 2
	if thorough {
		pairDepth = 3
	}
	if vlib.Mine(0) {
		res.Extra["pair_topology_depth"] = float64(pairDepth)
	}
	for si, nd := range all {
		// overlapping fan-outs need three peers in one session (or two in each of two) to show
		// anything: that pair kind also runs from topologies one step deeper
		if len(nd.hist) > pairDepth+1 || !vlib.Mine(si) || cut {
			continue
		}
		var nlive int
		vrt.Run(boxCfg(), nil, func() { nlive = len(c10Build(nd.hist).clients) })
		if nlive < 2 {
			continue
		}
		for a := 0; a < nlive; a++ {
			for b := 0; b < nlive; b++ {
				if a == b {
					continue
				}
				for _, second := range []string{"disconnect", "reconnect", "send", "broadcast"} {
					if len(nd.hist) > pairDepth && (second != "broadcast" || nlive < 3) {
						continue
					}
					if second == "broadcast" && a > b {
						continue // both sides do the same: unordered pairs
					}
					bound := pairBound
					if len(nd.hist) > pairDepth {
						bound = 1
					}
					if time.Now().After(deadline) {
						cut = true
						break
					}
					var w *c10World
					c10PairInfo = []string{fmt.Sprint(a), fmt.Sprint(b), second}
					ex := &vrt.Explorer{Cfg: boxCfg(), Bound: bound, Deadline: deadline, Root: func() {
						w = c10Build(nd.hist)
						w.runPair(a, b, second)
					}}
					ex.Visit = func(x *vrt.Exec) bool {
						pairExecs++
						c10Report(nd.hist, nil, w, x, fmt.Sprintf(" then #%d sends || #%d %s", a, b, second))
						return true
					}
					ex.Run()
					if !ex.Complete {
						cut = true
					}
					for _, d := range ex.Divergence {
						res.InfraError("pair %d/%d %s: replay divergence %s", a, b, second, d)
					}
					trans += ex.Execs
				}
			}
		}
	}
	c10PairInfo = nil
	res.EvalN(pairExecs)
	res.Extra["concurrent_pair_executions"] = float64(pairExecs)
	res.States = states
	res.Trans = trans
	res.Validated = trans
	if cut {
		res.NotExhaustive("time budget")
	}
}

// runPair: client a sends three addressed messages to b's peer id and a broadcast while, concurrently,
// b disconnects / reconnects under the same id / sends itself. Weaker invariants: nothing crosses
// sessions, from is the author's identity, no duplicates, order preserved per recipient.
func (w *c10World) runPair(a, b int, second string) {
	ca, cb := w.clients[a], w.clients[b]
	if ca.conn == nil || ca.Closed || cb.conn == nil || cb.Closed {
		return
	}
	var wg vrt.WaitGroup
	wg.Add(2)
	vrt.GoNamed("pair-a", "client", func() {
		defer wg.Done()
		if second == "broadcast" {
			// two fan-outs of a overlap with two fan-outs of b (same or another session)
			for i := 1; i <= 2; i++ {
				env, _ := protocol.NewEnvelope("offer", fmt.Sprintf("a%d", i), map[string]int{"n": i})
				ca.sendEnv(env)
			}
			return
		}
		for i := 1; i <= 3; i++ {
			env, _ := protocol.NewEnvelope("offer", fmt.Sprintf("a%d", i), map[string]int{"n": i})
			env.To = cb.Peer
			ca.sendEnv(env)
		}
		env, _ := protocol.NewEnvelope("offer", "abc", nil)
		ca.sendEnv(env)
	})
	var nc *Client
	vrt.GoNamed("pair-b", "client", func() {
		defer wg.Done()
		switch second {
		case "disconnect":
			cb.close()
		case "reconnect":
			nc = connect("re", w.sess[cb.Sess].Code, cb.Peer, roleOf(cb.Peer))
			nc.Sess = cb.Sess
		case "send":
			for i := 1; i <= 2; i++ {
				env, _ := protocol.NewEnvelope("answer", fmt.Sprintf("b%d", i), nil)
				env.To = ca.Peer
				cb.sendEnv(env)
			}
		case "broadcast":
			for i := 1; i <= 2; i++ {
				env, _ := protocol.NewEnvelope("answer", fmt.Sprintf("b%d", i), nil)
				cb.sendEnv(env)
			}
		}
	})
	wg.Wait()
	settle()
	if nc != nil {
		w.clients = append(w.clients, nc)
	}
	for _, c := range w.clients {
		lastA, lastB := 0, 0
		seenIDs := map[string]bool{}
		for _, raw := range c.Raw[c.seen:] {
			var f protocol.Envelope
			if json.Unmarshal([]byte(raw), &f) != nil || f.From == "server" {
				continue
			}
			var author *Client
			switch {
			case strings.HasPrefix(f.MsgID, "a"):
				author = ca
			case strings.HasPrefix(f.MsgID, "b"):
				author = cb
			}
			if author == nil {
				continue
			}
			if c.Sess != author.Sess {
				w.violate("delivered-to-another-session", fmt.Sprintf("concurrent: %s of session %d delivered to session %d", f.MsgID, author.Sess, c.Sess))
			}
			if f.From != author.Peer {
				w.violate("from-field-not-the-authors-identity", fmt.Sprintf("concurrent: %s seen with from=%q", f.MsgID, f.From))
			}
			if seenIDs[f.MsgID] {
				w.violate("duplicated", fmt.Sprintf("concurrent: %s delivered twice to %s", f.MsgID, c.Name))
			}
			seenIDs[f.MsgID] = true
			var n int
			if _, err := fmt.Sscanf(f.MsgID, "a%d", &n); err == nil {
				if n < lastA {
					w.violate("reordered", fmt.Sprintf("concurrent: %s after a%d at %s", f.MsgID, lastA, c.Name))
				}
				lastA = n
			}
			if _, err := fmt.Sscanf(f.MsgID, "b%d", &n); err == nil {
				if n < lastB {
					w.violate("reordered", fmt.Sprintf("concurrent: %s after b%d at %s", f.MsgID, lastB, c.Name))
				}
				lastB = n
			}
		}
	}
	// fan-outs: every other current member of the author's session gets both messages
	if second == "broadcast" {
		lat := w.latest()
		for _, au := range []struct {
			c   *Client
			idx int
			ids []string
		}{{ca, a, []string{"a1", "a2"}}, {cb, b, []string{"b1", "b2"}}} {
			if lat[au.c.Sess][au.c.Peer] != au.idx {
				continue // a replaced connection of a duplicate id: not judged here
			}
			for ci, c := range w.clients {
				if ci == au.idx || c.Sess != au.c.Sess || c.conn == nil || c.Closed || lat[c.Sess][c.Peer] != ci {
					continue
				}
				got := map[string]bool{}
				for _, raw := range c.Raw[c.seen:] {
					var f protocol.Envelope
					if json.Unmarshal([]byte(raw), &f) == nil {
						got[f.MsgID] = true
					}
				}
				for _, id := range au.ids {
					if !got[id] {
						w.violate("lost", fmt.Sprintf("concurrent: broadcast %s of %s did not reach %s of the same session", id, au.c.Peer, c.Name))
					}
				}
			}
		}
	}
	// a recipient that kept reading and was never replaced or disconnected must have got everything
	if second == "send" {
		got := map[string]bool{}
		for _, raw := range cb.Raw[cb.seen:] {
			var f protocol.Envelope
			if json.Unmarshal([]byte(raw), &f) == nil {
				got[f.MsgID] = true
			}
		}
		lat := w.latest()
		if lat[cb.Sess][cb.Peer] == b && lat[ca.Sess][ca.Peer] == a && ca.Sess == cb.Sess {
			for _, id := range []string{"a1", "a2", "a3"} {
				if !got[id] {
					w.violate("lost", fmt.Sprintf("concurrent: %s addressed to %s was lost although the recipient kept reading", id, cb.Peer))
				}
			}
		}
	}
}
