#!/usr/bin/env python3
"""Regenerates MANIFEST.json from the table below (kept next to the checks so it stays valid)."""
import json, subprocess
BASE = "cd /repo && GOFLAGS=-mod=mod GOPROXY=off go test -vet=off -count=1 -timeout 25m ./..."
claimed = {
 "C19": dict(level="exploration", engine="E3-enum", technique="bounded-exhaustive enumeration of (size, chunk, index) against a reference tiling; inline count expressions sliced from the source",
   text="Every (file size, chunk size) pair in a dense box plus the boundary lattice up to 10 TiB / 2^32-1 chunks is executed on the real chunkTotal, chunkSizeForIndex, CreateSidecar and on the inline count expressions sliced verbatim out of the current source; exhaustive inside the stated box, which is where ceiling-division and boundary mistakes live.",
   note="Trusted: the reference ceil-division in the harness; the slicing rule (assignments to totalChunks containing a division). Sizes between the dense box and the lattice points are not enumerated.", ref="§4 C19"),
 "C18": dict(level="exploration", engine="E3-enum", technique="bounded-exhaustive enumeration of record values (full product of per-field boundary alphabets) and record sequences, decode(encode(x)) == x with exact framing",
   text="Every control record type, the manifest header and the signaling envelope are encoded with the repository's writers and decoded with its readers over the full product of boundary alphabets per field, plus all ordered pairs and triples of representative records in one stream followed by a sentinel; exhaustive over that finite space, which is where length-prefix, field-order and boundary mistakes show.",
   note="Trusted: reflect-based field comparison (nil and empty slices identified). Interior field values are not enumerated. Envelope strings are valid Unicode only.", ref="§4 C18"),
 "C13": dict(level="exploration", engine="E3-enum", technique="bounded-exhaustive enumeration of small trees x path lists on a real file system against an independent walk and the real sender-side resolver",
   text="All trees up to 3-4 entries (5 in the thorough tier) over a name alphabet containing the tool's own disambiguation prefixes and a kind alphabet with symlinks to files, directories and nothing, crossed with all path lists up to length 2-3 in several spellings, are materialised on tmpfs and scanned by the real Scan/ScanPaths; each manifest is compared with an independent lstat walk through the real buildPathResolver (exactly-once, distinct, sorted, counts, size = bytes read, rescan identical).",
   note="Trusted: the oracle walk (os.Stat for a given path, no following of nested links); FIFOs/devices are outside the alphabet; cases the scanner refuses with an error are counted, not judged.", ref="§4 C13"),
 "C11": dict(level="model_checking", engine="E1-sched", technique="stateless model checking of the real hub under a controlled scheduler: delay-bounded DFS over all schedules of ~8k scenario templates, porcupine linearizability oracle",
   text="The real internal/peers hub (instrumented at build time: goroutines, channels, locks, timers become scheduler operations) is driven by scenario templates of 2-3 threads x 1-2 operations on one shared session plus an uninvolved session; every schedule within delay bound 2 (quick) / 3 (thorough) is executed and checked for panics (a send on a closed channel panics exactly as in Go), deadlocks, linearizability of Add/remove/List/SendTo against a sequential map (porcupine), routability of connected peers, absence of left peers, and table leaks.",
   note="Trusted: the vrt runtime's channel/lock/timer semantics (Appendix A); data races on plain variables are outside the explorer (sequentially consistent, preempts only at synchronisation points). Bounds: <=3 worker threads, <=2 ops per thread, delay bound 2/3.", ref="§4 C11"),
 "C03": dict(level="model_checking", engine="E1-sched", technique="stateless model checking of the real sender/receiver pair under a controlled scheduler over a QUIC environment model: configuration grid at deviation bound 0, tight set at bound 1, selected resume cases at bound 2",
   text="The real SendManifestMultiStream and RecvManifestMultiStream (instrumented at build time) run as two thread groups over the vquic model, wrapped by the repository's transferquic and multiConn code. A grid of (files 0-3) x (chunks 0-3) x streams {1,2,3,4,8} x connections {1,2,3} x resume state {off, fresh, partial, complete, first-chunk, holes} x latency {0, 200 ms} plus legal-name trees is executed; every schedule within the deviation bound is enumerated and each execution must end with both sides returning nil - a deadlock (nothing enabled, no timer) or 60 virtual seconds without transport or disk progress is a hang.",
   note="Trusted: vquic model (stream visibility on first frame, FIN/close semantics, in-order delivery with optional latency) and the vrt runtime. Bounded: trees up to 3 files x 3 chunks, deviation bound 0/1/2 as stated in the evidence; real quic-go internals are not scheduled.", ref="§4 C03"),
 "C01": dict(level="model_checking", engine="E1-sched", technique="stateless model checking of the real sender/receiver pair (controlled scheduler, QUIC model): configuration grid x schedules within the deviation bound, tree-equality oracle on every successful execution",
   text="Same harness as C03. Trees with file sizes around chunk boundaries (0, 1, c-1, c, c+1, 2c, 2c+1, 3c-1 for c in {1,4}), nesting, empty directories and the empty manifest are crossed with streams {1,2,4}, connections {1,2}, resume states (off, fresh, partial, complete, holes, first-chunk, stale longer/shorter files without metadata), latency, both root-directory modes and both scan modes; whenever both sides return nil the output directory must equal the source tree exactly (paths, lengths, bytes, nothing else besides the metadata directory).",
   note="Trusted as for C03. The oracle only judges executions in which both sides report success. The in-memory MockTransport of the test suite is not used by this check (it is exercised by the repository's own tests); QUIC is the vquic model, not real quic-go.", ref="§4 C01"),
 "C02": dict(level="fault_enumeration", engine="E1-sched", technique="exhaustive fault-position enumeration on the real sender/receiver pair under the controlled scheduler: every byte position of every stream direction x fault kind, each at deviation bound 0 and a stride of positions at bound 1",
   text="For each workload the fault-free execution yields the byte length of every stream direction (control and data, both ways); then one execution per (stream direction, byte position, fault) with the fault armed exactly there: peer closes with code 0, abrupt path loss (30 s idle timeout), cancel of the sender, cancel of the receiver, bit flip of every checksum and payload byte, source file shrinking or vanishing. Oracle: a side that returns nil implies a complete identical tree; a sender that returns nil implies every file was confirmed; nobody hangs beyond the code's own designed timeouts (11 virtual minutes).",
   note="Trusted: vquic fault semantics (close => pending and later operations fail, unread data lost; loss => idle timeout). One fault per execution. Obstructed output paths are covered by C07/C15 harnesses, not here. Deviation bound 1 only on a stride of positions in the quick tier.", ref="§4 C02"),
 "C05": dict(level="model_checking", engine="E1-sched", technique="stateless model checking with an invariant evaluated on the real disk at every file-system point of the receiver (controlled scheduler; split writes; enumerated write faults)",
   text="Interrupted-run workloads (two files of 3 and 2 chunks; fresh, partial and holed pre-existing state; 0 and 200 ms latency so that the 1 s metadata flusher fires mid-transfer; an extra FlushAllFlushers thread as the application runs on abort) are explored within deviation bound 1 (2 in the thorough tier on the tight cases), additionally with every single write / metadata-write / rename of the receiver failing (disk full) at each of its phases. Because only one thread runs at a time the disk content at a file-system point is what a kill there would leave; at every such point every metadata file the real LoadSidecar accepts must mark only chunks whose bytes in the output file equal the source, and a readable version, once it exists, must never be lost or lose bits.",
   note="Crash model: process kill (effects of completed syscalls; WriteFile and WriteAt split in halves; rename atomic). Power-loss reordering is not modelled. Trusted: vrt/vquic as for C03.", ref="§4 C05"),
}
todo = {}
props=[json.loads(l) for l in open('/verif/properties.jsonl')]
checks=[]; na=[]
for p in props:
    i=p['id']
    if i in claimed:
        c=claimed[i]
        checks.append({"property_id":i,"quick_cmd":f"./bin/vcheck {i} --tier quick","thorough_cmd":f"./bin/vcheck {i} --tier thorough",
          "evidence_file":f"/verif/evidence/{i}.json","replay_cmd_template":"./bin/vcheck replay {path}","engine":c["engine"],
          "level_claimed":{"category":c["level"],"text":c["text"],"design_ref":c["ref"]},"level_note":c["note"],"technique":c["technique"]})
    else:
        na.append({"property_id":i,"reason":todo.get(i,"check not built yet in this session (planned in DESIGN.md §4; will be claimed once its harness runs clean on the unchanged tree)")})
m={"version":1,
 "setup_cmd":"cd /verif && GOFLAGS=-mod=mod GOPROXY=off go build -o bin/vcheck ./cmd/vcheck && ./bin/vcheck setup",
 "hooks":{"guard":"verif","enable":"go build -tags verif -overlay <generated overlay.json> (hooks are applied at build time by /verif/engine/instr and overlay files; nothing is committed to /repo)",
   "baseline_off_cmd":BASE,"source_commits":[],"add_only":True},
 "engines":[
  {"name":"E3-enum","path":"/verif/harness","serves_properties":[i for i in claimed if claimed[i]["engine"]=="E3-enum"],"kind_free_text":"bounded-exhaustive input/fault enumeration on the real functions against reference oracles"},
  {"name":"E1-sched","path":"/verif/engine/vrt","serves_properties":[i for i in claimed if claimed[i]["engine"]=="E1-sched"],"kind_free_text":"stateless exploration of the real (instrumented) code under a controlled scheduler, delay-bounded DFS"},
  {"name":"E2-xstate","path":"/verif/engine/vrt","serves_properties":[i for i in claimed if claimed[i]["engine"]=="E2-xstate"],"kind_free_text":"explicit-state BFS over event histories replayed on fresh real objects"},
 ],
 "checks":checks,"not_applicable":na,
 "notes":"See DESIGN.md. vcheck rebuilds every harness from /repo's working tree through go build -overlay on each run."}
json.dump(m,open('/verif/MANIFEST.json','w'),indent=1)
print("claimed",len(checks),"na",len(na))
