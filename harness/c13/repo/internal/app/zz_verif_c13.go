//go:build verif

package app

// VerifBuildPathResolver exposes the sender's rel_path -> source file resolver (overlay only).
func VerifBuildPathResolver(paths []string) (func(relPath string) string, error) {
	return buildPathResolver(paths)
}
