//go:build verif

// Free-running race pass. The controlled scheduler switches threads only at synchronisation,
// channel, timer, transport and file-system operations and its hand-offs are happens-before
// edges, so it cannot see unsynchronised accesses to plain variables. This program runs bodies
// of the same kind as the property harnesses - real transfers over real loopback QUIC, the hub
// and the session store under concurrent load - UNINSTRUMENTED, with real goroutines, built with
// the Go race detector. Data races it reports are listed in the evidence (races_observed); a
// race is not a property violation and never produces a VIOLATION line.
package main

import (
	"bytes"
	"context"
	"fmt"
	"io"
	"log/slog"
	"net"
	"os"
	"os/exec"
	"path/filepath"
	"regexp"
	"sort"
	"strings"
	"sync"
	"time"

	"github.com/sheerbytes/sheerbytes/internal/peers"
	"github.com/sheerbytes/sheerbytes/internal/quictransport"
	"github.com/sheerbytes/sheerbytes/internal/session"
	"github.com/sheerbytes/sheerbytes/internal/transfer"
	"github.com/sheerbytes/sheerbytes/internal/transferquic"
	"github.com/sheerbytes/sheerbytes/internal/verif/vlib"
	"github.com/sheerbytes/sheerbytes/pkg/manifest"
	"github.com/sheerbytes/sheerbytes/pkg/protocol"
)

var quiet = slog.New(slog.NewTextHandler(io.Discard, nil))
var res *vlib.Result

func main() {
	res = vlib.Parse()
	res.Part = "race-pass"
	res.Rule = "free-running (uninstrumented, real goroutines, real loopback QUIC) executions of transfer, hub and session-store workloads under the Go race detector; evaluations = workload runs; non-trivial = distinct workload"
	scratch := os.Getenv("VERIF_SCRATCH")
	if scratch == "" {
		scratch, _ = os.MkdirTemp("/dev/shm", "racepass")
		defer os.RemoveAll(scratch)
	}
	logBase := filepath.Join(scratch, "race")
	if os.Getenv("VERIF_RACE_CHILD") == "" {
		// the race runtime reads GORACE at start-up: run the workloads in a child
		self, _ := os.Executable()
		c := exec.Command(self, os.Args[1:]...)
		c.Env = append(os.Environ(), "VERIF_RACE_CHILD=1", "GORACE=halt_on_error=0 exitcode=0 log_path="+logBase)
		var out bytes.Buffer
		c.Stdout, c.Stderr = &out, &out
		err := c.Run()
		// the child wrote its own result file; add the races found in the logs
		child := &vlib.Result{}
		if rerr := vlib.ReadJSON(vlib.F.Out, child); rerr == nil {
			res = child
		} else if err != nil {
			res.InfraError("race-pass child failed: %v\n%s", err, tailStr(out.String(), 30))
		}
		if res.Extra == nil {
			res.Extra = map[string]any{}
		}
		races := collectRaces(logBase)
		res.Extra["races_observed"] = float64(len(races))
		if len(races) > 0 {
			res.Extra["race_sites"] = strings.Join(races, " || ")
		}
		res.Finish()
	}
	n := 0
	run := func(name string, f func() error) {
		n++
		res.Eval()
		res.Nontrivial(name)
		done := make(chan error, 1)
		go func() { done <- f() }()
		select {
		case err := <-done:
			if err != nil {
				res.Extra["failed:"+name] = err.Error()
			}
		case <-time.After(60 * time.Second):
			res.Extra["failed:"+name] = "no result within 60 s (free-running pass; not a verdict)"
		}
		res.SampleSpread(int64(n), name)
	}
	for _, files := range [][]int64{{}, {0}, {1}, {4096}, {4097, 0}, {3 * 4096, 5000}, {1, 2, 3, 70000}} {
		for _, streams := range []int{1, 2, 4} {
			for _, conns := range []int{1, 2} {
				for _, resume := range []string{"off", "fresh", "partial"} {
					files, streams, conns, resume := files, streams, conns, resume
					name := fmt.Sprintf("transfer files=%v streams=%d conns=%d resume=%s", files, streams, conns, resume)
					run(name, func() error { return transferOnce(scratch, files, streams, conns, resume) })
				}
			}
		}
	}
	run("hub under concurrent load", hubLoad)
	run("session store under concurrent load", storeLoad)
	res.Finish()
}

func tailStr(s string, n int) string {
	ls := strings.Split(s, "\n")
	if len(ls) > n {
		ls = ls[len(ls)-n:]
	}
	return strings.Join(ls, "\n")
}

var frameRe = regexp.MustCompile(`(?m)^  ([^\s(]+)\(`)

// collectRaces returns one line per distinct race: the two top repository frames.
func collectRaces(base string) []string {
	ms, _ := filepath.Glob(base + ".*")
	seen := map[string]bool{}
	for _, m := range ms {
		b, _ := os.ReadFile(m)
		for _, rep := range strings.Split(string(b), "WARNING: DATA RACE")[1:] {
			var sites []string
			for _, blk := range strings.Split(rep, "\n\n") {
				if !strings.Contains(blk, " by goroutine") && !strings.Contains(blk, "by main goroutine") {
					continue
				}
				for _, f := range frameRe.FindAllStringSubmatch(blk, -1) {
					if strings.Contains(f[1], "sheerbytes/") && !strings.Contains(f[1], "verif_racepass") {
						sites = append(sites, strings.TrimPrefix(f[1], "github.com/sheerbytes/sheerbytes/"))
						break
					}
				}
				if len(sites) == 2 {
					break
				}
			}
			if len(sites) > 0 {
				sort.Strings(sites)
				seen[strings.Join(sites, " <-> ")] = true
			}
		}
	}
	var out []string
	for k := range seen {
		out = append(out, k)
	}
	sort.Strings(out)
	return out
}

func udp() net.PacketConn {
	c, err := net.ListenUDP("udp", &net.UDPAddr{IP: net.IPv4(127, 0, 0, 1)})
	if err != nil {
		panic(err)
	}
	return c
}

func connect(ctx context.Context) (transfer.Conn, transfer.Conn, func(), error) {
	su, cu := udp(), udp()
	l, err := quictransport.Listen(ctx, su, quiet)
	if err != nil {
		return nil, nil, nil, err
	}
	lt := transferquic.NewListener(l, quiet)
	type r struct {
		c   transfer.Conn
		err error
	}
	ch := make(chan r, 1)
	go func() { c, err := lt.Accept(ctx); ch <- r{c, err} }()
	qc, err := quictransport.Dial(ctx, cu, su.LocalAddr(), quiet)
	if err != nil {
		return nil, nil, nil, err
	}
	cc, err := transferquic.NewDialer(qc, quiet).Dial(ctx, "peer")
	if err != nil {
		return nil, nil, nil, err
	}
	x := <-ch
	if x.err != nil {
		return nil, nil, nil, x.err
	}
	return cc, x.c, func() { cc.Close(); x.c.Close(); lt.Close(); su.Close(); cu.Close() }, nil
}

func content(k int, n int64) []byte {
	b := make([]byte, n)
	for i := range b {
		b[i] = byte(37*k + i*7 + i/251)
	}
	return b
}

var seq int

func transferOnce(scratch string, files []int64, streams, nconn int, resume string) error {
	seq++
	src := filepath.Join(scratch, fmt.Sprintf("src%d", seq), "share")
	out := filepath.Join(scratch, fmt.Sprintf("out%d", seq))
	defer os.RemoveAll(filepath.Dir(src))
	defer os.RemoveAll(out)
	os.MkdirAll(src, 0755)
	os.MkdirAll(out, 0755)
	for k, n := range files {
		if err := os.WriteFile(filepath.Join(src, fmt.Sprintf("f%d.bin", k)), content(k, n), 0644); err != nil {
			return err
		}
	}
	m, err := manifest.Scan(src)
	if err != nil {
		return err
	}
	const chunk = 4096
	if resume == "partial" {
		for k, it := range m.Items {
			if it.IsDir || it.Size == 0 {
				continue
			}
			total := (it.Size + chunk - 1) / chunk
			data := make([]byte, it.Size)
			sc, err := transfer.CreateSidecar(transfer.SidecarPath(out, "", it.ID), it.ID, it.Size, chunk)
			if err != nil {
				return err
			}
			want := content(k, it.Size)
			for i := int64(0); i < (total+1)/2; i++ {
				lo, hi := i*chunk, (i+1)*chunk
				if hi > it.Size {
					hi = it.Size
				}
				copy(data[lo:hi], want[lo:hi])
				sc.MarkComplete(uint32(i))
			}
			os.WriteFile(filepath.Join(out, it.RelPath), data, 0644)
			sc.Flush()
		}
	}
	ctx, cancel := context.WithTimeout(context.Background(), 50*time.Second)
	defer cancel()
	var sconns, rconns []transfer.Conn
	var closers []func()
	for i := 0; i < nconn; i++ {
		a, b, cl, err := connect(ctx)
		if err != nil {
			return err
		}
		sconns, rconns, closers = append(sconns, a), append(rconns, b), append(closers, cl)
	}
	defer func() {
		for _, c := range closers {
			c()
		}
	}()
	var sconn, rconn transfer.Conn = sconns[0], rconns[0]
	if nconn > 1 {
		if sconn, err = transfer.NewMultiConn(sconns); err != nil {
			return err
		}
		if rconn, err = transfer.NewMultiConn(rconns); err != nil {
			return err
		}
	}
	var wg sync.WaitGroup
	var serr, rerr error
	wg.Add(2)
	go func() {
		defer wg.Done()
		serr = transfer.SendManifestMultiStream(ctx, sconn, src, m, transfer.Options{ChunkSize: chunk, ParallelFiles: streams, Resume: resume != "off"})
		sconn.Close()
	}()
	go func() {
		defer wg.Done()
		_, rerr = transfer.RecvManifestMultiStream(ctx, rconn, out, transfer.Options{Resume: resume != "off", NoRootDir: true, HashAlg: "crc32c", ParallelFiles: streams})
		rconn.Close()
	}()
	wg.Wait()
	if serr != nil || rerr != nil {
		return fmt.Errorf("send: %v recv: %v", serr, rerr)
	}
	for k, n := range files {
		got, err := os.ReadFile(filepath.Join(out, fmt.Sprintf("f%d.bin", k)))
		if err != nil || !bytes.Equal(got, content(k, n)) {
			return fmt.Errorf("f%d.bin differs after a successful transfer", k)
		}
	}
	return nil
}

func hubLoad() error {
	h := peers.NewHub()
	var wg sync.WaitGroup
	for g := 0; g < 6; g++ {
		g := g
		wg.Add(1)
		go func() {
			defer wg.Done()
			for i := 0; i < 400; i++ {
				sid := fmt.Sprintf("s%d", i%2)
				id := fmt.Sprintf("p%d", (g+i)%4)
				remove := h.Add(sid, peers.Peer{PeerID: id, Role: "receiver", ConnID: fmt.Sprintf("c%d-%d", g, i)}, func(protocol.Envelope) error { return nil }, func() {})
				env, _ := protocol.NewEnvelope("offer", "m", nil)
				switch i % 5 {
				case 0:
					h.Broadcast(sid, env)
				case 1:
					h.BroadcastExcept(sid, id, env)
				case 2:
					h.SendTo(sid, fmt.Sprintf("p%d", i%4), env)
				case 3:
					h.List(sid)
				case 4:
					if i%50 == 4 {
						h.CloseSession(sid)
					}
				}
				remove()
			}
		}()
	}
	wg.Wait()
	return nil
}

func storeLoad() error {
	s := session.NewStore(50 * time.Millisecond)
	var wg sync.WaitGroup
	for g := 0; g < 6; g++ {
		wg.Add(1)
		go func() {
			defer wg.Done()
			for i := 0; i < 2000; i++ {
				x := s.Create()
				s.GetByJoinCode(x.JoinCode)
				s.Count()
				if i%2 == 0 {
					s.Delete(x.ID)
				}
			}
		}()
	}
	wg.Wait()
	return nil
}
