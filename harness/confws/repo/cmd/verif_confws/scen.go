//go:build verif

package main

// WebSocket conformance scenarios: one source, built against real gorilla/websocket + net/http
// (uninstrumented) and against the vws/vhttp models under the controlled scheduler.

import (
	"context"
	"errors"
	"fmt"
	"io"
	"net"
	"net/http"
	"strings"
	"sync"
	"time"

	"github.com/gorilla/websocket"
)

const listenAddr = "127.0.0.1:18473"

var (
	registered bool
	handlerMu  sync.Mutex
	current    func(w http.ResponseWriter, r *http.Request)
	upgrader   = websocket.Upgrader{CheckOrigin: func(r *http.Request) bool { return true }}
)

// serve installs h as the handler of /ws (the server is started on first use).
func serve(h func(w http.ResponseWriter, r *http.Request)) {
	handlerMu.Lock()
	current = h
	handlerMu.Unlock()
	if registered {
		return
	}
	registered = true
	http.HandleFunc("/ws", func(w http.ResponseWriter, r *http.Request) {
		handlerMu.Lock()
		f := current
		handlerMu.Unlock()
		f(w, r)
	})
	go http.ListenAndServe(listenAddr, nil)
	waitListening()
}

func waitListening() {
	for i := 0; i < 300; i++ {
		req, _ := http.NewRequest(http.MethodGet, "http://"+listenAddr+"/ready", nil)
		if resp, err := (&http.Client{}).Do(req); err == nil {
			resp.Body.Close()
			return
		}
		time.Sleep(10 * time.Millisecond)
	}
}

func dial() (*websocket.Conn, *http.Response, error) {
	ctx, cancel := context.WithTimeout(context.Background(), 3*time.Second)
	defer cancel()
	return websocket.DefaultDialer.DialContext(ctx, "ws://"+listenAddr+"/ws?x=1", nil)
}

func wsClass(err error) string {
	if err == nil {
		return "nil"
	}
	var ce *websocket.CloseError
	var ne net.Error
	switch {
	case errors.As(err, &ce):
		return fmt.Sprintf("close-%d", ce.Code)
	case errors.Is(err, websocket.ErrReadLimit):
		return "read-limit"
	case errors.Is(err, websocket.ErrBadHandshake):
		return "bad-handshake"
	case errors.Is(err, websocket.ErrCloseSent):
		return "close-sent"
	case errors.As(err, &ne) && ne.Timeout():
		return "timeout"
	}
	return "error"
}

type scenario struct {
	name string
	f    func() string
}

// upgraded runs body with the server side of an upgraded connection and reports its result.
func upgraded(body func(c *websocket.Conn) string) chan string {
	out := make(chan string, 1)
	serve(func(w http.ResponseWriter, r *http.Request) {
		c, err := upgrader.Upgrade(w, r, nil)
		if err != nil {
			out <- "upgrade: " + err.Error()
			return
		}
		defer c.Close()
		out <- body(c)
	})
	return out
}

func wait(ch chan string) string {
	select {
	case s := <-ch:
		return s
	case <-time.After(5 * time.Second):
		return "server still busy"
	}
}

var scenarios = []scenario{
	{"echo-keeps-order-and-type", func() string {
		srv := upgraded(func(c *websocket.Conn) string {
			for i := 0; i < 3; i++ {
				t, b, err := c.ReadMessage()
				if err != nil {
					return wsClass(err)
				}
				c.WriteMessage(t, b)
			}
			return "echoed"
		})
		c, _, err := dial()
		if err != nil {
			return wsClass(err)
		}
		defer c.Close()
		c.WriteMessage(websocket.TextMessage, []byte("a"))
		c.WriteMessage(websocket.BinaryMessage, []byte("b"))
		c.WriteMessage(websocket.TextMessage, []byte("c"))
		out := ""
		for i := 0; i < 3; i++ {
			t, b, err := c.ReadMessage()
			if err != nil {
				return out + wsClass(err)
			}
			out += fmt.Sprintf("%d%s ", t, b)
		}
		return out + wait(srv)
	}},
	{"json-round-trip", func() string {
		srv := upgraded(func(c *websocket.Conn) string {
			var v map[string]any
			if err := c.ReadJSON(&v); err != nil {
				return wsClass(err)
			}
			v["seen"] = true
			c.WriteJSON(v)
			return "ok"
		})
		c, _, err := dial()
		if err != nil {
			return wsClass(err)
		}
		defer c.Close()
		c.WriteJSON(map[string]any{"k": "v"})
		_, b, err := c.ReadMessage()
		return fmt.Sprintf("%s %s %s", strings.TrimSpace(string(b)), wsClass(err), wait(srv))
	}},
	{"read-limit", func() string {
		srv := upgraded(func(c *websocket.Conn) string {
			c.SetReadLimit(10)
			_, b, err := c.ReadMessage()
			first := fmt.Sprintf("%d %s", len(b), wsClass(err))
			_, _, err = c.ReadMessage()
			second := wsClass(err)
			_, _, err = c.ReadMessage()
			return first + " / " + second + " / " + wsClass(err)
		})
		c, _, err := dial()
		if err != nil {
			return wsClass(err)
		}
		defer c.Close()
		c.WriteMessage(websocket.TextMessage, []byte("0123456789"))  // exactly the limit
		c.WriteMessage(websocket.TextMessage, []byte("0123456789A")) // one above
		_, _, err = c.ReadMessage()
		return "client " + wsClass(err) + " server " + wait(srv)
	}},
	{"client-drops-connection", func() string {
		srv := upgraded(func(c *websocket.Conn) string {
			_, _, err := c.ReadMessage()
			return fmt.Sprint(wsClass(err), " unexpected=", websocket.IsUnexpectedCloseError(err, websocket.CloseGoingAway, websocket.CloseAbnormalClosure))
		})
		c, _, err := dial()
		if err != nil {
			return wsClass(err)
		}
		c.Close()
		return wait(srv)
	}},
	{"server-drops-connection", func() string {
		srv := upgraded(func(c *websocket.Conn) string { return "closing" })
		c, _, err := dial()
		if err != nil {
			return wsClass(err)
		}
		defer c.Close()
		s := wait(srv)
		_, _, err = c.ReadMessage()
		return s + " " + wsClass(err)
	}},
	{"queued-frames-arrive-before-the-drop", func() string {
		srv := upgraded(func(c *websocket.Conn) string {
			c.WriteMessage(websocket.TextMessage, []byte("1"))
			c.WriteMessage(websocket.TextMessage, []byte("2"))
			return "sent"
		})
		c, _, err := dial()
		if err != nil {
			return wsClass(err)
		}
		defer c.Close()
		out := wait(srv)
		for i := 0; i < 3; i++ {
			_, b, err := c.ReadMessage()
			if err != nil {
				return out + " " + wsClass(err)
			}
			out += " " + string(b)
		}
		return out
	}},
	{"read-deadline", func() string {
		srv := upgraded(func(c *websocket.Conn) string {
			c.SetReadDeadline(time.Now().Add(60 * time.Millisecond))
			_, _, err := c.ReadMessage()
			first := wsClass(err)
			_, _, err = c.ReadMessage()
			return first + " then " + wsClass(err)
		})
		c, _, err := dial()
		if err != nil {
			return wsClass(err)
		}
		defer c.Close()
		return wait(srv)
	}},
	{"deadline-extended-by-traffic", func() string {
		srv := upgraded(func(c *websocket.Conn) string {
			n := 0
			for {
				c.SetReadDeadline(time.Now().Add(150 * time.Millisecond))
				if _, _, err := c.ReadMessage(); err != nil {
					return fmt.Sprint(n, " ", wsClass(err))
				}
				n++
			}
		})
		c, _, err := dial()
		if err != nil {
			return wsClass(err)
		}
		defer c.Close()
		for i := 0; i < 3; i++ {
			time.Sleep(60 * time.Millisecond)
			c.WriteMessage(websocket.TextMessage, []byte("x"))
		}
		return wait(srv)
	}},
	{"ping-pong-handlers", func() string {
		srv := upgraded(func(c *websocket.Conn) string {
			got := ""
			c.SetPingHandler(func(d string) error {
				got += "ping:" + d
				return c.WriteControl(websocket.PongMessage, []byte(d), time.Now().Add(time.Second))
			})
			_, b, err := c.ReadMessage()
			return fmt.Sprint(got, " ", string(b), " ", wsClass(err))
		})
		c, _, err := dial()
		if err != nil {
			return wsClass(err)
		}
		defer c.Close()
		pong := ""
		c.SetPongHandler(func(d string) error { pong += "pong:" + d; return nil })
		c.WriteControl(websocket.PingMessage, []byte("hi"), time.Now().Add(time.Second))
		c.WriteMessage(websocket.TextMessage, []byte("after"))
		s := wait(srv)
		c.SetReadDeadline(time.Now().Add(200 * time.Millisecond))
		_, _, err = c.ReadMessage()
		return s + " | " + pong + " " + wsClass(err)
	}},
	{"close-frame-with-code", func() string {
		srv := upgraded(func(c *websocket.Conn) string {
			_, _, err := c.ReadMessage()
			var ce *websocket.CloseError
			if errors.As(err, &ce) {
				return fmt.Sprintf("close-%d %q", ce.Code, ce.Text)
			}
			return wsClass(err)
		})
		c, _, err := dial()
		if err != nil {
			return wsClass(err)
		}
		defer c.Close()
		c.WriteControl(websocket.CloseMessage, websocket.FormatCloseMessage(websocket.CloseNormalClosure, "bye"), time.Now().Add(time.Second))
		return wait(srv)
	}},
	{"refused-before-upgrade", func() string {
		serve(func(w http.ResponseWriter, r *http.Request) {
			w.Header().Set("Content-Type", "application/json")
			w.WriteHeader(http.StatusTooManyRequests)
			io.WriteString(w, `{"error":"limit"}`)
		})
		c, resp, err := dial()
		if c != nil {
			c.Close()
		}
		body := ""
		code := 0
		if resp != nil {
			b, _ := io.ReadAll(resp.Body)
			body, code = string(b), resp.StatusCode
		}
		return fmt.Sprint(wsClass(err), " ", code, " ", body)
	}},
	{"query-reaches-the-handler", func() string {
		srv := make(chan string, 1)
		serve(func(w http.ResponseWriter, r *http.Request) {
			srv <- r.URL.Query().Get("x") + " " + r.URL.Path
			w.WriteHeader(http.StatusBadRequest)
		})
		c, _, _ := dial()
		if c != nil {
			c.Close()
		}
		return wait(srv)
	}},
	{"write-after-own-close", func() string {
		srv := upgraded(func(c *websocket.Conn) string {
			_, _, err := c.ReadMessage()
			return wsClass(err)
		})
		c, _, err := dial()
		if err != nil {
			return wsClass(err)
		}
		c.Close()
		err = c.WriteMessage(websocket.TextMessage, []byte("x"))
		r := "nil"
		if err != nil {
			r = "error"
		}
		return r + " " + wait(srv)
	}},
	{"plain-http-request-to-upgrade-handler", func() string {
		upgraded(func(c *websocket.Conn) string { return "upgraded" })
		req, _ := http.NewRequest(http.MethodGet, "http://"+listenAddr+"/ws", nil)
		resp, err := (&http.Client{}).Do(req)
		if err != nil {
			return "error"
		}
		defer resp.Body.Close()
		return fmt.Sprint(resp.StatusCode)
	}},
}
