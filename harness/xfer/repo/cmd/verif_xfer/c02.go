//go:build verif

package main

import (
	"context"
	"fmt"
	"os"
	"path/filepath"
	"sort"
	"strings"
	"time"

	"github.com/sheerbytes/sheerbytes/internal/transfer"
	quic "github.com/sheerbytes/sheerbytes/internal/verif/venv/vquic"
	"github.com/sheerbytes/sheerbytes/internal/verif/vlib"
	vrt "github.com/sheerbytes/sheerbytes/internal/verif/vrt"
)

// ---- C02: no false success under faults ----

// FaultSpec arms one fault at one byte position of one stream direction.
type FaultSpec struct {
	Stream string `json:"stream"` // "<conn>/<writer c|s>:<stream id>"
	Pos    int64  `json:"pos"`
	Kind   string `json:"kind"` // peerclose loss cancelS cancelR flip shrink remove loss-other close-other
	Arg    int    `json:"arg,omitempty"`
}

func (f FaultSpec) String() string { return fmt.Sprintf("%s@%s+%d/%d", f.Kind, f.Stream, f.Pos, f.Arg) }

type faultObs struct {
	counts  map[string]int64
	order   []string
	arm     *FaultSpec
	fired   bool
	cancelS context.CancelFunc
	cancelR context.CancelFunc
	p       *Prepared
	firedAt int64
	log     map[string][]byte // bytes per stream direction (baseline run only)
	sconns  []*quic.Conn      // sender-side ends of all connections (faults on "the other" connection)
}

// payloadOrCRC reports whether byte position pos of a data stream (given its baseline bytes) lies
// in the checksum or payload part of a chunk frame (header: key 8, index 4, length 4, crc 4).
func payloadOrCRC(log []byte, pos int64) bool {
	off := int64(0)
	for off+20 <= int64(len(log)) {
		l := int64(log[off+12])<<24 | int64(log[off+13])<<16 | int64(log[off+14])<<8 | int64(log[off+15])
		end := off + 20 + l
		if pos < end {
			return pos >= off+16
		}
		off = end
	}
	return false
}

func streamKey(s *quic.Stream) string {
	w := "s"
	c := s.Conn()
	name := c.Name
	if strings.HasSuffix(name, "/c") {
		w = "c"
	}
	return fmt.Sprintf("%s/%s:%d", strings.TrimSuffix(strings.TrimSuffix(name, "/c"), "/s"), w, int64(s.StreamID()))
}

func (o *faultObs) StreamOpened(s *quic.Stream) {}

func (o *faultObs) BeforeWrite(s *quic.Stream, p []byte) (int, quic.Fault) {
	k := streamKey(s)
	sofar, seen := o.counts[k]
	if !seen {
		o.order = append(o.order, k)
	}
	o.counts[k] = sofar + int64(len(p))
	if o.arm == nil {
		if o.log == nil {
			o.log = map[string][]byte{}
		}
		o.log[k] = append(o.log[k], p...)
	}
	a := o.arm
	if a == nil || o.fired || a.Stream != k || a.Pos < sofar || a.Pos >= sofar+int64(len(p)) {
		return len(p), quic.NoFault
	}
	o.fired = true
	o.firedAt = vrt.X.Clock()
	off := int(a.Pos - sofar)
	switch a.Kind {
	case "peerclose":
		return off, quic.FaultPeerClose
	case "loss":
		return off, quic.FaultAbruptLoss
	case "cancelS":
		if o.cancelS != nil {
			o.cancelS()
		}
	case "cancelR":
		if o.cancelR != nil {
			o.cancelR()
		}
	case "loss-other", "close-other":
		// the fault hits every connection except the one this stream belongs to (a secondary
		// connection of a multi-connection transfer goes away while the rest carries on)
		mine := strings.TrimSuffix(strings.TrimSuffix(s.Conn().Name, "/c"), "/s")
		for _, c := range o.sconns {
			if strings.TrimSuffix(strings.TrimSuffix(c.Name, "/c"), "/s") == mine {
				continue
			}
			if a.Kind == "loss-other" {
				c.Lose()
			} else {
				c.CloseWithError(0, "")
			}
		}
	case "flip":
		p[off] ^= 1 << uint(a.Arg%8)
	case "shrink", "remove":
		// the a.Arg-th file of the source tree shrinks by one byte / vanishes
		i := 0
		for k2, e := range o.p.Case.Tree {
			_ = k2
			if e.Size < 0 {
				continue
			}
			if i == a.Arg {
				fp := filepath.Join(o.p.SrcRoot, "share", filepath.FromSlash(e.Path))
				if a.Kind == "remove" {
					os.Remove(fp)
				} else if e.Size > 0 {
					os.Truncate(fp, e.Size-1)
				}
			}
			i++
		}
	}
	return len(p), quic.NoFault
}

type c02Out struct {
	confirmed map[string]bool
}

var c02cur *c02Out

func c02Env(p *Prepared, f *FaultSpec) (*Env, *faultObs) {
	obs := &faultObs{counts: map[string]int64{}, arm: f, p: p}
	env := envFor("c02", p, "")
	env.Obs = obs
	env.SenderCtx = func(ctx context.Context, cancel context.CancelFunc) { obs.cancelS = cancel }
	env.RecvCtx = func(ctx context.Context, cancel context.CancelFunc) { obs.cancelR = cancel }
	env.AfterSetup = func(sc, rc []*quic.Conn) { obs.sconns = sc }
	env.RecvOpts = func(o *transfer.Options) {
		o.FileDoneFn = func(rel string, ok bool) {
			if ok {
				c02cur.confirmed[rel] = true
			}
		}
	}
	prevBefore := env.BeforeRun
	env.BeforeRun = func(p *Prepared, outDir string) {
		c02cur = &c02Out{confirmed: map[string]bool{}}
		obs.counts, obs.order, obs.fired, obs.log = map[string]int64{}, nil, false, nil
		restoreSource(p)
		if prevBefore != nil {
			prevBefore(p, outDir)
		}
		if f != nil && f.Kind == "obstruct" {
			obstruct(p, outDir, f)
		}
	}
	return env, obs
}

// obstruct makes one output path unwritable before the run: something of the wrong type sits
// where the entry must go (Arg 0), or a regular file sits where its parent directory must go
// (Arg 1). Stream names the entry (path relative to the output base).
func obstruct(p *Prepared, outDir string, f *FaultSpec) {
	base := filepath.Join(outDir, p.OutBase)
	target := filepath.Join(base, filepath.FromSlash(f.Stream))
	if f.Arg == 1 {
		parent := filepath.Dir(target)
		os.MkdirAll(filepath.Dir(parent), 0755)
		os.WriteFile(parent, []byte("in the way"), 0644)
		return
	}
	os.MkdirAll(filepath.Dir(target), 0755)
	if p.Dirs[f.Stream] {
		os.WriteFile(target, []byte("in the way"), 0644)
	} else {
		os.MkdirAll(target, 0755)
		os.WriteFile(filepath.Join(target, "occupant"), []byte("x"), 0644)
	}
}

// restoreSource re-creates source files a shrink/remove fault of an earlier execution damaged.
func restoreSource(p *Prepared) {
	mt := time.Unix(1_600_000_000, 0)
	for k, e := range p.Case.Tree {
		if e.Size < 0 {
			continue
		}
		fp := filepath.Join(p.SrcRoot, "share", filepath.FromSlash(e.Path))
		if st, err := os.Stat(fp); err != nil || st.Size() != e.Size {
			os.WriteFile(fp, content(k, e.Size), 0644)
			os.Chtimes(fp, mt, mt)
		}
	}
}

func faultClass(f *FaultSpec) string {
	if f.Kind == "obstruct" {
		if f.Arg == 1 {
			return "obstruct/parent-is-a-file"
		}
		return "obstruct/wrong-type-in-place"
	}
	st := "data"
	if strings.HasSuffix(f.Stream, ":0") {
		st = "control"
	}
	dir := "to-receiver"
	if strings.Contains(f.Stream, "/s:") {
		dir = "to-sender"
	}
	return f.Kind + "/" + st + "/" + dir
}

func checkC02(p *Prepared, f *FaultSpec, x *vrt.Exec, o *Outcome) {
	rp := replayT{Mode: "c02", Case: p.Case, Choices: append([]int{}, x.Choices()...), Extra: vlib.JSON(f)}.withCfg(x)
	fc := faultClass(f)
	switch x.Outcome {
	case "ok":
	case "exit":
		return // a process exit with a non-zero status is a loud failure
	case "deadlock", "stall":
		sig := hangSig(x)
		sig["fault"] = fc
		res.Violate("hang", "xfer/c02", sig, fmt.Sprintf("%s fault %s: %s after the fault; blocked at %v", p.Case, f, x.Outcome, x.Blocked), rp)
		return
	case "panic":
		res.Violate("panic", "xfer/c02", map[string]any{"panic": x.Detail}, fmt.Sprintf("%s fault %s: panic %s", p.Case, f, x.Detail), rp)
		return
	default:
		res.InfraError("%s fault %s: outcome %s %s", p.Case, f, x.Outcome, x.Detail)
		return
	}
	nfiles := len(p.Files)
	if o.RecvErr == nil && o.TreeDiff != "" {
		res.Violate("false-success", "xfer/c02", map[string]any{"side": "receiver", "fault": fc, "send": classOf(o.SendErr, p.Case)},
			fmt.Sprintf("%s fault %s: receiver reports success but the tree differs: %s (sender: %v)", p.Case, f, o.TreeDiff, o.SendErr), rp)
	}
	if o.SendErr == nil {
		nconf := len(c02cur.confirmed)
		if nconf < nfiles {
			res.Violate("false-success", "xfer/c02", map[string]any{"side": "sender", "fault": fc, "class": "unconfirmed-files", "recv": classOf(o.RecvErr, p.Case)},
				fmt.Sprintf("%s fault %s: sender reports success but the receiver confirmed only %d of %d files (receiver: %v)", p.Case, f, nconf, nfiles, o.RecvErr), rp)
		} else if o.TreeDiff != "" {
			res.Violate("false-success", "xfer/c02", map[string]any{"side": "sender", "fault": fc, "class": "tree-differs", "recv": classOf(o.RecvErr, p.Case)},
				fmt.Sprintf("%s fault %s: sender reports success, every file confirmed, but the tree differs: %s", p.Case, f, o.TreeDiff), rp)
		}
	}
}

func classOf(err error, c Case) string {
	if err == nil {
		return "nil"
	}
	if secondary(err) {
		return classSecondary(err)
	}
	return errNorm(err, c)
}

func c02Cfg() vrt.Config {
	cfg := baseCfg()
	cfg.IdleHorizon = int64(11 * time.Minute) // the code's own designed timeouts (30 s idle, 10 min stream I/O)
	return cfg
}

var lockPhaseCases = []Case{
	{Tree: []Entry{{Path: "a", Size: 4}, {Path: "b", Size: 8}}, Chunk: 4, Streams: 1, Conns: 1, Resume: true, NoRootDir: true},
	{Tree: []Entry{{Path: "a", Size: 8}, {Path: "b", Size: 8}}, Chunk: 4, Streams: 2, Conns: 1, Resume: false, NoRootDir: true},
}

func modeC02() {
	res.Rule = "for each workload the fault-free run yields the byte length of every stream direction; then one execution per (stream direction, byte position, fault kind) with the fault armed exactly there - peer close with code 0, abrupt loss, cancel of sender, cancel of receiver, bit flip of the byte, source shrink/removal - each at deviation bound 0 and a stride of positions at bound 1; plus every output path obstructed before the run (wrong type in place / regular file in place of the parent); non-trivial = the fault fired; distinct by (workload, fault)"
	thorough := vlib.F.Tier == "thorough"
	st := newStats()
	budget := 170 * time.Second
	if thorough {
		budget = 20 * time.Minute
	}
	deadline := time.Now().Add(budget)
	workloads := []Case{
		{Tree: []Entry{{Path: "a", Size: 4}}, Chunk: 4, Streams: 1, Conns: 1, Resume: true, NoRootDir: true},
		{Tree: []Entry{{Path: "a", Size: 3}, {Path: "b", Size: 9}}, Chunk: 4, Streams: 2, Conns: 1, Resume: true, NoRootDir: true},
		{Tree: []Entry{{Path: "a", Size: 4}, {Path: "b", Size: 6}}, Chunk: 4, Streams: 2, Conns: 2, Resume: false, NoRootDir: true},
		{Tree: []Entry{{Path: "a", Size: 12}, {Path: "b", Size: 5}}, Chunk: 4, Streams: 2, Conns: 1, Resume: true, NoRootDir: true, Pre: "partial"},
	}
	if !thorough {
		workloads = workloads[:3]
	}
	job := 0
	nfired := 0
	for wi, c := range workloads {
		p, err := prepare(c)
		if err != nil {
			res.InfraError("prepare: %v", err)
			continue
		}
		// baseline
		env0, obs0 := c02Env(p, nil)
		x0 := vrt.Run(c02Cfg(), nil, func() { runTransfer(p, env0) })
		if x0.Outcome != "ok" || last.SendErr != nil || last.RecvErr != nil {
			res.InfraError("baseline of workload %d is not a clean success: %s %v %v", wi, x0.Outcome, last.SendErr, last.RecvErr)
			continue
		}
		keys := append([]string{}, obs0.order...)
		sort.Strings(keys)
		lens := map[string]int64{}
		for _, k := range keys {
			lens[k] = obs0.counts[k]
		}
		res.Extra[fmt.Sprintf("workload%d_stream_bytes", wi)] = fmt.Sprint(lens)
		st.cases++
		nf := 0
		for _, e := range c.Tree {
			if e.Size >= 0 {
				nf++
			}
		}
		for _, k := range keys {
			isData := !strings.HasSuffix(k, ":0")
			for pos := int64(0); pos < lens[k]; pos++ {
				kinds := []FaultSpec{{k, pos, "peerclose", 0}, {k, pos, "loss", 0}, {k, pos, "cancelS", 0}, {k, pos, "cancelR", 0}}
				if isData && strings.Contains(k, "/c:") && payloadOrCRC(obs0.log[k], pos) {
					kinds = append(kinds, FaultSpec{k, pos, "flip", int(pos % 8)})
				}
				if strings.Contains(k, "/c:") && (pos%4 == 0) {
					for fi := 0; fi < nf; fi++ {
						kinds = append(kinds, FaultSpec{k, pos, "shrink", fi}, FaultSpec{k, pos, "remove", fi})
					}
				}
				for _, f := range kinds {
					job++
					if !vlib.MineKey(fmt.Sprintf("%d|%s", wi, f)) {
						continue
					}
					f := f
					env, obs := c02Env(p, &f)
					bound := 0
					stride := int64(16)
					if thorough {
						stride = 1
					}
					if pos%stride == 0 || f.Kind == "flip" {
						bound = 1
					}
					e := &vrt.Explorer{Cfg: c02Cfg(), Bound: bound, Deadline: deadline, Root: func() { runTransfer(p, env) }}
					e.Visit = func(x *vrt.Exec) bool {
						if obs.fired {
							nfired++
							res.Nontrivial(fmt.Sprintf("%d|%s|%x", wi, f, x.Trace()))
						}
						checkC02(p, &f, x, last)
						return true
					}
					e.Run()
					st.add(e)
					res.SampleSpread(int64(job), map[string]any{"workload": c.String(), "fault": f.String()})
				}
			}
		}
		os.RemoveAll(p.SrcRoot)
	}
	// Obstructed output paths: for every entry of a tree with files, nested files and empty
	// directories, something of the wrong type in its place or a regular file in place of its
	// parent; both root-directory modes, resume on and off.
	for _, nr := range []bool{true, false} {
		for _, rs := range []bool{true, false} {
			c := Case{Tree: []Entry{{Path: "a", Size: 4}, {Path: "hollow", Size: -1}, {Path: "d/x", Size: 5}, {Path: "d/sub", Size: -1}, {Path: "d/sub2/deep", Size: -1}},
				Chunk: 4, Streams: 1, Conns: 1, Resume: rs, NoRootDir: nr}
			p, err := prepare(c)
			if err != nil {
				res.InfraError("prepare: %v", err)
				continue
			}
			var rels []string
			for rel := range p.Files {
				rels = append(rels, rel)
			}
			for rel := range p.Dirs {
				rels = append(rels, rel)
			}
			sort.Strings(rels)
			for _, rel := range rels {
				for arg := 0; arg <= 1; arg++ {
					if arg == 1 && !strings.Contains(strings.TrimPrefix(rel, p.OutBase), "/") {
						continue
					}
					f := FaultSpec{Stream: rel, Kind: "obstruct", Arg: arg}
					job++
					if !vlib.MineKey("obstruct|" + c.String() + f.String()) {
						continue
					}
					env, _ := c02Env(p, &f)
					e := &vrt.Explorer{Cfg: c02Cfg(), Bound: 1, Deadline: deadline, Root: func() { runTransfer(p, env) }}
					e.Visit = func(x *vrt.Exec) bool {
						nfired++
						res.Nontrivial(fmt.Sprintf("obstruct|%s|%s|%x", c.String(), f, x.Trace()))
						checkC02(p, &f, x, last)
						return true
					}
					e.Run()
					st.add(e)
					res.SampleSpread(int64(job), map[string]any{"workload": c.String(), "fault": f.String()})
				}
			}
			os.RemoveAll(p.SrcRoot)
		}
	}
	// Multi-connection transfers: a secondary connection goes away (path loss / closed by the
	// sender's end) while the transfer carries on over the primary one - armed at a stride of
	// byte positions of the primary connection's control stream, both directions. One workload
	// has fewer chunks than data streams, so that a stream of the secondary connection never
	// carries a frame (and is invisible to the receiver until the end).
	for wi, c := range []Case{
		{Tree: []Entry{{Path: "a", Size: 4}}, Chunk: 4, Streams: 2, Conns: 2, Resume: true, NoRootDir: true},
		{Tree: []Entry{{Path: "a", Size: 4}, {Path: "b", Size: 6}}, Chunk: 4, Streams: 2, Conns: 2, Resume: false, NoRootDir: true},
		{Tree: []Entry{{Path: "a", Size: 4}}, Chunk: 4, Streams: 3, Conns: 3, Resume: false, NoRootDir: true},
	} {
		if wi == 2 && !thorough {
			continue // three connections: thorough tier
		}
		p, err := prepare(c)
		if err != nil {
			res.InfraError("prepare: %v", err)
			continue
		}
		env0, obs0 := c02Env(p, nil)
		x0 := vrt.Run(c02Cfg(), nil, func() { runTransfer(p, env0) })
		if x0.Outcome != "ok" || last.SendErr != nil || last.RecvErr != nil {
			res.InfraError("baseline of multi-connection workload %d is not a clean success: %s %v %v", wi, x0.Outcome, last.SendErr, last.RecvErr)
			continue
		}
		st.cases++
		for _, k := range []string{"conn0/c:0", "conn0/s:0"} {
			n := obs0.counts[k]
			mcStride := int64(8)
			if thorough {
				mcStride = 2
			}
			for pos := int64(0); pos < n; pos += mcStride {
				for _, kind := range []string{"loss-other", "close-other"} {
					f := FaultSpec{k, pos, kind, 0}
					job++
					if !vlib.MineKey(fmt.Sprintf("mc%d|%s", wi, f)) {
						continue
					}
					env, obs := c02Env(p, &f)
					e := &vrt.Explorer{Cfg: c02Cfg(), Bound: 0, Deadline: deadline, Root: func() { runTransfer(p, env) }}
					e.Visit = func(x *vrt.Exec) bool {
						if obs.fired {
							nfired++
							res.Nontrivial(fmt.Sprintf("mc%d|%s|%x", wi, f, x.Trace()))
						}
						checkC02(p, &f, x, last)
						return true
					}
					e.Run()
					st.add(e)
					res.SampleSpread(int64(job), map[string]any{"workload": c.String(), "fault": f.String()})
				}
			}
		}
		os.RemoveAll(p.SrcRoot)
	}
	// Lock-level phase: the same faults on a small two-file workload with mutex acquisitions as
	// scheduling points, so that check-then-act sequences inside the receiver's and sender's
	// bookkeeping (finalisation, counters, registries) are interleaved with the abort.
	lockBound := int(vlib.ArgInt("lockbound", 1))
	if thorough {
		lockBound = int(vlib.ArgInt("lockbound", 2))
	}
	lockExecs := int64(0)
	lockCases := []Case{}
	if thorough {
		lockCases = lockPhaseCases
	}
	for wi, c := range lockCases {
		p, err := prepare(c)
		if err != nil {
			res.InfraError("prepare: %v", err)
			continue
		}
		cfg := c02Cfg()
		cfg.LockPoints = true
		cfg.FlatCosts = true
		env0, obs0 := c02Env(p, nil)
		x0 := vrt.Run(cfg, nil, func() { runTransfer(p, env0) })
		if x0.Outcome != "ok" || last.SendErr != nil || last.RecvErr != nil {
			res.InfraError("lock phase: baseline of workload %d is not a clean success: %s %v %v", wi, x0.Outcome, last.SendErr, last.RecvErr)
			continue
		}
		keys := append([]string{}, obs0.order...)
		sort.Strings(keys)
		for _, k := range keys {
			if strings.HasSuffix(k, ":0") || !strings.Contains(k, "/c:") {
				continue // data streams towards the receiver only
			}
			n := obs0.counts[k]
			for pos := int64(0); pos < n; pos += 10 {
				for _, kind := range []string{"cancelS", "peerclose"} {
					f := FaultSpec{k, pos, kind, 0}
					job++
					if !vlib.MineKey(fmt.Sprintf("lock|%d|%s", wi, f)) {
						continue
					}
					env, obs := c02Env(p, &f)
					e := &vrt.Explorer{Cfg: cfg, Bound: lockBound, Deadline: deadline, Root: func() { runTransfer(p, env) }}
					e.Visit = func(x *vrt.Exec) bool {
						lockExecs++
						if obs.fired {
							nfired++
							res.Nontrivial(fmt.Sprintf("lock|%d|%s|%x", wi, f, x.Trace()))
						}
						checkC02(p, &f, x, last)
						return true
					}
					e.Run()
					st.add(e)
				}
			}
		}
		os.RemoveAll(p.SrcRoot)
	}
	res.Extra["lock_phase_executions"] = float64(lockExecs)
	res.Extra["lock_phase_bound"] = fmt.Sprint(lockBound)
	res.Extra["executions_in_which_the_fault_fired"] = float64(nfired)
	st.finish()
}
