// Package vrt is the controlled-scheduler runtime of engine E1 (DESIGN.md §2.1, Appendix A).
//
// Every goroutine of instrumented code is a Thread owned by the runtime; exactly one runs at a
// time (baton passing over private wake channels). Every blocking operation is expressed as a
// predicate the scheduler can evaluate, so the enabled set is always known. A scheduling point
// offers an ordered option list; option 0 is the default and every other option has a cost
// (delay bounding). The explorer (explore.go) enumerates all option sequences within a cost bound.
package vrt

import (
	"fmt"
	"hash/fnv"
	"runtime"
	"sort"
	"strings"
	"sync"
)

type Thread struct {
	ID      int
	Name    string
	Group   string
	wake    chan struct{}
	exited  chan struct{}
	pred    func() bool // nil = runnable
	pend    *pendingSel // pending channel op (for partner matching)
	done    bool
	started bool
	selRes  selResult
	preset  bool
	blockPC [10]uintptr
	blockN  int
	blockOp string
	killed  bool
	low     bool // demoted: runs only when no thread of normal priority can (Config.Demote)
	// sleepUntil: a thread demoted with the sleeping variant (Config.DemoteSleep) also lets the
	// timers due up to this instant of virtual time fire before it runs
	sleepUntil int64
}

type timer struct {
	at   int64
	seq  int
	fire func()
	dead bool
}

// Event is a probe/harness event recorded in the execution trace for oracles.
type Event struct {
	Thread int
	Kind   string
	Args   []any
	Clock  int64
}

type choicePoint struct {
	n     int
	costs []int
	label string
}

// Config of one execution.
type Config struct {
	MaxSteps    int   // step horizon (default 400000)
	IdleHorizon int64 // virtual ns without Progress() while a root is running => stall (0 = off)
	TimerFirst  bool  // offer "fire earliest timer now" as a cost-1 alternative at scheduling points
	// TimerFirstWindow: only timers due within this much virtual time are offered as the
	// "fire now" deviation (default 5 s): runnable threads may be late, not absent for minutes.
	TimerFirstWindow int64
	// Demote adds the deviation "demote the running thread" (see schedule).
	Demote bool
	// StartPoints makes the first instruction of every spawned thread a scheduling point of that
	// thread, so that a goroutine whose body has no synchronisation before its effect (compute,
	// then publish) can be demoted before it computes.
	StartPoints bool
	// DemoteSleep > 0 adds a second variant of that deviation: the demoted thread stands still for
	// this much virtual time as well, i.e. timers due within it fire before the thread runs even
	// when nothing else can run (a thread that is late by some hundred milliseconds: page fault,
	// slow disk, busy machine). Without it a demoted thread still runs before the clock advances.
	DemoteSleep int64
	// LowThreads honours threads started with GoLow (they run only when nothing else can, or
	// when a deviation of cost 1 picks them) without offering self-demotion everywhere.
	LowThreads bool
	// FlatCosts makes a switch to *any* other enabled thread cost 1 (preemption bounding)
	// instead of its distance in the round-robin order (delay bounding): more executions per
	// bound, but no thread is out of reach of a single deviation.
	FlatCosts bool
	// TimerTies makes the firing order of timers due at the same instant a choice.
	TimerTies bool
	// AtomicPoints makes sync/atomic operations scheduling points.
	AtomicPoints bool
	// LockPoints makes mutex acquisitions scheduling points (default true via DefaultConfig).
	LockPoints bool
	// ReverseOrder makes the default order of other threads descending ids.
	ReverseOrder bool
	RandScript   []byte // scripted answers for crypto/rand (cycled); nil = counter stream
}

// Config returns the configuration the execution ran under (recorded in replay artefacts).
func (x *Exec) Config() Config { return x.cfg }

// TraceFn, when set, receives one line per scheduling decision (debugging of replays).
var TraceFn func(string)

func DefaultConfig() Config {
	return Config{MaxSteps: 400000, LockPoints: true}
}

type Exec struct {
	cfg      Config
	threads  []*Thread
	cur      *Thread
	clock    int64
	timers   []*timer
	tseq     int
	prefix   []int
	choices  []int
	points   []choicePoint
	closed   map[uintptr]bool
	keep     []any
	teardown bool
	finished chan struct{}
	fin      bool
	steps    int
	objIDs   map[uintptr]int
	trace    uint64 // rolling hash of (thread, label) per step
	rngCtr   uint64
	lastProg int64
	Events   []Event
	KeepEvts bool

	Outcome    string // ok | panic | deadlock | stall | horizon | exit | diverged
	Detail     string // panic value / blocked sites / exit code
	PanicVal   any
	PanicStack string
	Blocked    []string // blocking sites at deadlock/stall (sorted)
	ExitCode   int
	Diverged   string
	Values     map[string]any // harness scratch (results of root threads etc.)
}

// X is the execution in progress (one at a time per process). Outside executions it is a
// finished dummy, so that instrumented code called by a harness between executions (building
// fixtures with the repository's own API) runs as plain sequential code.
var X = &Exec{teardown: true, fin: true, closed: map[uintptr]bool{}, objIDs: map[uintptr]int{}, Values: map[string]any{}, finished: make(chan struct{})}

const startClock = int64(1_700_000_000) * 1_000_000_000

type goexitSentinel struct{}

// Run executes root under the scheduler, following prefix and then defaults.
func Run(cfg Config, prefix []int, root func()) *Exec {
	if cfg.MaxSteps == 0 {
		cfg.MaxSteps = 400000
	}
	x := &Exec{cfg: cfg, prefix: prefix, closed: map[uintptr]bool{}, finished: make(chan struct{}),
		objIDs: map[uintptr]int{}, clock: startClock, lastProg: startClock, Values: map[string]any{}}
	X = x
	resetHooks()
	t := x.newThread("main", "main")
	x.cur = t
	x.startThread(t, root)
	t.wake <- struct{}{}
	<-x.finished
	// teardown: unwind every live thread, one at a time
	x.teardown = true
	for i := 0; i < len(x.threads); i++ { // threads may not grow in teardown (Go is a no-op)
		th := x.threads[i]
		if !th.started {
			continue
		}
		select {
		case <-th.exited:
			continue
		default:
		}
		select {
		case th.wake <- struct{}{}:
		default:
		}
		<-th.exited
	}
	return x
}

func (x *Exec) newThread(name, group string) *Thread {
	t := &Thread{ID: len(x.threads), Name: name, Group: group, wake: make(chan struct{}, 1), exited: make(chan struct{})}
	x.threads = append(x.threads, t)
	return t
}

func (x *Exec) startThread(t *Thread, f func()) {
	t.started = true
	go func() {
		defer close(t.exited)
		<-t.wake
		if x.teardown {
			return
		}
		defer func() {
			r := recover()
			if x.teardown {
				return
			}
			if r != nil {
				if _, ok := r.(goexitSentinel); ok {
					return
				}
				buf := make([]byte, 8192)
				n := runtime.Stack(buf, false)
				x.PanicVal = r
				x.PanicStack = string(buf[:n])
				x.finishLocked("panic", fmt.Sprintf("%v @ %s", normPanic(r), panicSite(string(buf[:n]))))
				return
			}
		}()
		f()
		if x.teardown {
			return
		}
		x.exit(t)
	}()
}

func normPanic(r any) string {
	s := fmt.Sprint(r)
	// strip addresses
	for {
		i := strings.Index(s, "0x")
		if i < 0 {
			break
		}
		j := i + 2
		for j < len(s) && strings.ContainsRune("0123456789abcdef", rune(s[j])) {
			j++
		}
		s = s[:i] + "ADDR" + s[j:]
	}
	return s
}

// panicSite returns the first frame below the panic that lies in the repository proper.
func panicSite(st string) string {
	lines := strings.Split(st, "\n")
	seenPanic := false
	for i := 0; i < len(lines); i++ {
		l := strings.TrimSpace(lines[i])
		if strings.HasPrefix(l, "panic(") {
			seenPanic = true
			continue
		}
		if !seenPanic {
			continue
		}
		if strings.Contains(l, "sheerbytes/") && !strings.Contains(l, "/internal/verif/") && !strings.HasPrefix(l, "/") {
			if j := strings.LastIndex(l, "("); j > 0 {
				l = l[:j]
			}
			return shortFunc(l)
		}
	}
	return "?"
}

func shortFunc(f string) string {
	f = strings.TrimPrefix(f, "github.com/sheerbytes/sheerbytes/")
	return f
}

func (x *Exec) finishLocked(outcome, detail string) {
	if x.fin {
		return
	}
	x.fin = true
	x.Outcome = outcome
	x.Detail = detail
	close(x.finished)
}

// park blocks the calling goroutine until it is woken; in teardown it unwinds.
func (x *Exec) park(self *Thread) {
	<-self.wake
	if x.teardown {
		runtime.Goexit()
	}
}

func (x *Exec) checkTeardown() {
	if x.teardown {
		runtime.Goexit()
	}
}

func (x *Exec) mix(a, b uint64) {
	x.trace = (x.trace ^ a) * 1099511628211
	x.trace = (x.trace ^ b) * 1099511628211
}

func hashStr(s string) uint64 {
	h := fnv.New64a()
	h.Write([]byte(s))
	return h.Sum64()
}

// choose picks among options at a choice point. costs[i] is the cost of option i (costs[0]==0).
func (x *Exec) choose(costs []int, label string) int {
	n := len(costs)
	c := 0
	i := len(x.choices)
	if i < len(x.prefix) {
		c = x.prefix[i]
		if c >= n {
			x.Diverged = fmt.Sprintf("choice %d: option %d of %d at %s", i, c, n, label)
			x.finishLocked("diverged", x.Diverged)
			x.park(x.cur) // never returns normally
		}
	}
	x.choices = append(x.choices, c)
	x.points = append(x.points, choicePoint{n: n, costs: costs, label: label})
	return c
}

// Choose is an environment choice point for harness code: returns an index in [0,n); every
// non-default answer costs 1.
func Choose(n int, label string) int {
	x := X
	if x.teardown || n <= 1 {
		return 0
	}
	costs := make([]int, n)
	for i := 1; i < n; i++ {
		costs[i] = 1
	}
	return x.choose(costs, "env:"+label)
}

func (x *Exec) enabled(t *Thread) bool {
	if t.done || t.killed {
		return false
	}
	return t.pred == nil || t.pred()
}

func (c Config) timerFirstWindow() int64 {
	if c.TimerFirstWindow > 0 {
		return c.TimerFirstWindow
	}
	return 5_000_000_000
}

// timerWithin reports whether a live timer is due within d of the current clock (d<=0: any).
func (x *Exec) timerWithin(d int64) bool {
	for _, tm := range x.timers {
		if !tm.dead && (d <= 0 || tm.at-x.clock <= d) {
			return true
		}
	}
	return false
}

// timerDueBy reports whether a live timer is due at or before the instant t.
func (x *Exec) timerDueBy(t int64) bool {
	for _, tm := range x.timers {
		if !tm.dead && tm.at <= t {
			return true
		}
	}
	return false
}

func (x *Exec) hasTimer() bool {
	for _, tm := range x.timers {
		if !tm.dead {
			return true
		}
	}
	return false
}

// others returns the other threads in default scan order after self.
func (x *Exec) order(self *Thread) []*Thread {
	n := len(x.threads)
	out := make([]*Thread, 0, n)
	if x.cfg.ReverseOrder {
		for k := 1; k < n; k++ {
			out = append(out, x.threads[((self.ID-k)%n+n)%n])
		}
	} else {
		for k := 1; k < n; k++ {
			out = append(out, x.threads[(self.ID+k)%n])
		}
	}
	return out
}

// schedule is the heart: called by the running thread `self` which wants to proceed once pred
// holds (pred==nil: plain point). selfDone: the thread is exiting.
func (x *Exec) schedule(self *Thread, selfDone bool, label string) {
	x.steps++
	if x.steps > x.cfg.MaxSteps {
		x.finishLocked("horizon", fmt.Sprintf("step horizon %d", x.cfg.MaxSteps))
		x.park(self)
	}
	x.mix(uint64(self.ID), hashStr(label))
	for {
		var opts []*Thread
		selfEnabled := !selfDone && x.enabled(self)
		if selfEnabled {
			opts = append(opts, self)
		}
		for _, t := range x.order(self) {
			if x.enabled(t) {
				opts = append(opts, t)
			}
		}
		sleepers := 0
		if x.cfg.DemoteSleep > 0 {
			// a sleeping demoted thread is out of the way while a timer is due within its sleep
			k := 0
			for _, t := range opts {
				if t.low && t.sleepUntil > x.clock && x.timerDueBy(t.sleepUntil) {
					sleepers++
					continue
				}
				opts[k] = t
				k++
			}
			opts = opts[:k]
			if selfEnabled && (k == 0 || opts[0] != self) {
				selfEnabled = false
			}
		}
		nNormal := len(opts)
		if x.cfg.Demote || x.cfg.LowThreads {
			// demoted threads come after every thread of normal priority
			var normal, low []*Thread
			for _, t := range opts {
				if t.low {
					low = append(low, t)
				} else {
					normal = append(normal, t)
				}
			}
			nNormal = len(normal)
			opts = append(normal, low...)
		}
		if len(opts) == 0 {
			if TraceFn != nil {
				TraceFn(fmt.Sprintf("step %d %s@%s nothing enabled, timers=%v", x.steps, self.Name, label, x.hasTimer()))
			}
			if x.fireTimer() {
				continue
			}
			if sleepers > 0 {
				panic("vrt: sleeping thread without a timer")
			}
			x.deadlock("deadlock")
			x.park(self)
		}
		// "fire the earliest timer now" stands for the runnable threads being a little late, not
		// for all of them standing still for minutes: a timer further away than the window is
		// not offered while something can run (it fires when nothing else can).
		timerOpt := x.cfg.TimerFirst && x.timerWithin(x.cfg.timerFirstWindow())
		// "demote the running thread": from here on it runs only when nothing else can, until a
		// later deviation picks it explicitly. One such deviation keeps a thread out of the way
		// across any number of blocking operations of the others - the plain delay only skips it once.
		demoteOpt := x.cfg.Demote && selfEnabled && !self.low && nNormal > 1
		idx := 0
		nthreads := len(opts)
		nopt := nthreads
		if timerOpt {
			nopt++
		}
		if demoteOpt {
			nopt++
		}
		sleepOpt := demoteOpt && x.cfg.DemoteSleep > 0 && x.timerDueBy(x.clock+x.cfg.DemoteSleep)
		if sleepOpt {
			nopt++
		}
		if nopt > 1 {
			costs := make([]int, nopt)
			for i := range opts {
				costs[i] = i
				if i > 1 && (x.cfg.FlatCosts || opts[i].low) {
					costs[i] = 1 // a demoted thread is always one deviation away
				}
			}
			for i := nthreads; i < nopt; i++ {
				costs[i] = 1
			}
			idx = x.choose(costs, label)
		}
		if timerOpt && idx == nthreads {
			x.fireTimer()
			continue
		}
		if sleepOpt && idx == nopt-1 {
			self.low = true
			self.sleepUntil = x.clock + x.cfg.DemoteSleep
			if TraceFn != nil {
				TraceFn(fmt.Sprintf("step %d %s@%s demoted, asleep for %dms", x.steps, self.Name, label, x.cfg.DemoteSleep/1e6))
			}
			continue
		}
		if demoteOpt && ((!sleepOpt && idx == nopt-1) || (sleepOpt && idx == nopt-2)) {
			self.low = true
			if TraceFn != nil {
				TraceFn(fmt.Sprintf("step %d %s@%s demoted", x.steps, self.Name, label))
			}
			continue // re-evaluate: the first thread of normal priority is now the default
		}
		next := opts[idx]
		if TraceFn != nil {
			names := ""
			for _, t := range opts {
				names += t.Name
				if t.low {
					names += "(low)"
				}
				names += " "
			}
			TraceFn(fmt.Sprintf("step %d clock+%dms %s@%s -> %s   [%s] demoteOpt=%v timerOpt=%v", x.steps, (x.clock-startClock)/1e6, self.Name, label, next.Name, names, demoteOpt, timerOpt))
		}
		if idx > 0 && next.low {
			next.low = false // picked explicitly: back to normal priority
			next.sleepUntil = 0
		}
		if next == self {
			self.pred = nil
			return
		}
		x.cur = next
		next.wake <- struct{}{}
		if selfDone {
			return
		}
		x.park(self)
		self.pred = nil
		return
	}
}

func (x *Exec) deadlock(kind string) {
	var sites []string
	for _, t := range x.threads {
		if t.done || t.killed || !t.started {
			continue
		}
		sites = append(sites, t.blockSite())
	}
	sort.Strings(sites)
	// dedupe
	out := sites[:0]
	for i, s := range sites {
		if i == 0 || s != sites[i-1] {
			out = append(out, s)
		}
	}
	x.Blocked = out
	x.finishLocked(kind, strings.Join(out, " ; "))
}

func (t *Thread) blockSite() string {
	if t.blockN == 0 {
		return t.Name + ":running"
	}
	frames := runtime.CallersFrames(t.blockPC[:t.blockN])
	site := "?"
	for {
		f, more := frames.Next()
		if strings.Contains(f.Function, "sheerbytes/") && !strings.Contains(f.Function, "/internal/verif/vrt") {
			site = shortFunc(f.Function)
			break
		}
		if !more {
			break
		}
	}
	return site + ":" + t.blockOp
}

// yield: scheduling point / blocking operation for the running thread.
func (x *Exec) yield(pred func() bool, label string) {
	x.checkTeardown()
	self := x.cur
	self.pred = pred
	if pred != nil {
		self.blockOp = label
		self.blockN = runtime.Callers(3, self.blockPC[:])
	}
	x.schedule(self, false, label)
}

func (x *Exec) exit(self *Thread) {
	self.done = true
	if self.ID == 0 {
		x.finishLocked("ok", "")
		return
	}
	// is anybody else able to run?
	x.schedule(self, true, "exit")
}

func (x *Exec) fireTimer() bool {
	var best *timer
	for _, tm := range x.timers {
		if tm.dead {
			continue
		}
		if best == nil || tm.at < best.at || (tm.at == best.at && tm.seq < best.seq) {
			best = tm
		}
	}
	if best == nil {
		return false
	}
	if x.cfg.TimerTies {
		// timers due at the same instant may fire in any order: creation order is the default,
		// every other one a deviation
		var ties []*timer
		for _, tm := range x.timers {
			if !tm.dead && tm.at == best.at {
				ties = append(ties, tm)
			}
		}
		if len(ties) > 1 {
			sort.Slice(ties, func(i, j int) bool { return ties[i].seq < ties[j].seq })
			costs := make([]int, len(ties))
			for i := 1; i < len(ties); i++ {
				costs[i] = 1
			}
			best = ties[x.choose(costs, "timer-tie")]
		}
	}
	best.dead = true
	if best.at > x.clock {
		x.clock = best.at
	}
	if x.cfg.IdleHorizon > 0 && x.clock-x.lastProg > x.cfg.IdleHorizon {
		x.deadlock("stall")
		x.park(x.cur)
	}
	// compact the timer list now and then
	if len(x.timers) > 64 {
		live := x.timers[:0]
		for _, tm := range x.timers {
			if !tm.dead {
				live = append(live, tm)
			}
		}
		x.timers = live
	}
	best.fire()
	return true
}

func (x *Exec) addTimer(d int64, fire func()) *timer {
	if d < 0 {
		d = 0
	}
	x.tseq++
	tm := &timer{at: x.clock + d, seq: x.tseq, fire: fire}
	x.timers = append(x.timers, tm)
	return tm
}

// ---- public API ----

// Go starts a new thread (instrumented `go` statement).
func Go(f func()) { GoNamed("", "", f) }

// GoNamed starts a named thread in a group ("" = creator's group).
func GoNamed(name, group string, f func()) *Thread {
	x := X
	if x.teardown {
		return nil
	}
	if group == "" {
		group = x.cur.Group
	}
	if name == "" {
		name = fmt.Sprintf("%s/g%d", group, len(x.threads))
	}
	t := x.newThread(name, group)
	if x.cfg.StartPoints {
		g := f
		f = func() { Point("start"); g() }
	}
	x.startThread(t, f)
	x.yield(nil, "go")
	return t
}

// GoLow starts a thread of low priority (see Config.LowThreads): it stands for something that may
// happen at any moment - a signal handler, say - and runs where a deviation puts it, or at the
// very end when nothing else can run.
func GoLow(name, group string, f func()) *Thread {
	x := X
	if x.teardown {
		return nil
	}
	if group == "" {
		group = x.cur.Group
	}
	t := x.newThread(name, group)
	t.low = true
	x.startThread(t, f)
	x.yield(nil, "go")
	return t
}

// Point is a plain scheduling point.
func Point(label string) {
	if X.teardown {
		return
	}
	X.yield(nil, label)
}

// Block parks the running thread until pred holds (harness/env primitive).
func Block(label string, pred func() bool) {
	if X.teardown {
		return
	}
	X.yield(pred, label)
}

// Progress tells the idle-horizon watchdog that useful work happened.
func Progress() { X.lastProg = X.clock }

// EmitHook, when set by a harness, sees every probe event synchronously (so that it can look at
// the live objects at that very moment).
var EmitHook func(kind string, args []any)

// Emit records a probe/harness event.
func Emit(kind string, args ...any) {
	x := X
	if x.teardown {
		return
	}
	if EmitHook != nil {
		EmitHook(kind, args)
	}
	x.mix(hashStr(kind), uint64(len(args)))
	if x.KeepEvts {
		x.Events = append(x.Events, Event{Thread: x.cur.ID, Kind: kind, Args: args, Clock: x.clock})
	}
}

// Exit models os.Exit: the execution ends with outcome "exit".
func Exit(code int) {
	x := X
	if x.teardown {
		runtime.Goexit()
	}
	x.ExitCode = code
	x.finishLocked("exit", fmt.Sprintf("os.Exit(%d) @ %s", code, callerSite()))
	x.park(x.cur)
}

func callerSite() string {
	var pcs [12]uintptr
	n := runtime.Callers(3, pcs[:])
	frames := runtime.CallersFrames(pcs[:n])
	for {
		f, more := frames.Next()
		if strings.Contains(f.Function, "sheerbytes/") && !strings.Contains(f.Function, "/internal/verif/vrt") {
			return shortFunc(f.Function)
		}
		if !more {
			return "?"
		}
	}
}

// KillGroup parks all threads of a group forever (process kill); the caller must not be in it
// unless it is fine to never return.
func KillGroup(group string) {
	x := X
	for _, t := range x.threads {
		if t.Group == group {
			t.killed = true
		}
	}
	if x.cur.killed {
		x.schedule(x.cur, true, "killed")
		x.park(x.cur)
	}
}

// Step returns the logical step counter (a timestamp for call/return histories).
func Step() int { return X.steps }

// CurrentGroup returns the group of the running thread.
func CurrentGroup() string { return X.cur.Group }

// CurrentThread returns the id of the running thread.
func CurrentThread() int { return X.cur.ID }

// Teardown reports whether the execution is being unwound.
func Teardown() bool { return X.teardown }

// Trace returns the rolling trace hash.
func (x *Exec) Trace() uint64 { return x.trace }

// Choices returns the choice sequence of this execution.
func (x *Exec) Choices() []int { return x.choices }

// Cost returns the total deviation cost of this execution.
func (x *Exec) Cost() int {
	c := 0
	for i, ch := range x.choices {
		c += x.points[i].costs[ch]
	}
	return c
}

func (x *Exec) Steps() int    { return x.steps }
func (x *Exec) Clock() int64  { return x.clock }
func (x *Exec) NThreads() int { return len(x.threads) }
func (x *Exec) NPoints() int  { return len(x.choices) }
func (x *Exec) objID(p uintptr) int {
	if id, ok := x.objIDs[p]; ok {
		return id
	}
	id := len(x.objIDs) + 1
	x.objIDs[p] = id
	return id
}

// hooks reset between executions (package-level state of instrumented packages)
var (
	resetMu    sync.Mutex
	resetFuncs []func()
)

// OnReset registers a function run at the start of every execution (used by generated
// verifReset functions to reinitialise package-level mutable state).
func OnReset(f func()) {
	resetMu.Lock()
	resetFuncs = append(resetFuncs, f)
	resetMu.Unlock()
}

func resetHooks() {
	for _, f := range resetFuncs {
		f()
	}
}
