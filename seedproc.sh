#!/bin/bash
# seedproc.sh <base> <ID> <name>: confirm an agent's seeded change (suite passes, demo fails with / passes without),
# store it under /verif/seeded/<name>, and run the property's quick check against it on a scratch copy.
base=$1; id=$2; name=$3
echo "== $name"
/verif/seedtool.sh verify $id $name $base 2>&1 | tail -3 | tr '\n' ' '; echo
/verif/seedtool.sh run $name 2>&1 | tail -1
