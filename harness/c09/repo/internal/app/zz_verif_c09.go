//go:build verif

package app

import (
	"time"
	"context"
	"io"
	"log/slog"

	"github.com/sheerbytes/sheerbytes/internal/transfer"
	"github.com/sheerbytes/sheerbytes/internal/transferquic"
)

var verifLogger9 = slog.New(slog.NewTextHandler(io.Discard, nil))

// VerifAcceptorCommit runs the receiver's real acceptOnce closure (sliced verbatim out of
// snapshotReceiver.runTransfer by the generator) and then does what runTransfer does with its
// result: commit to the first connection delivered and authenticate on it.
func VerifAcceptorCommit(ctx context.Context, t *transferquic.QUICTransport, joinCode string) (transfer.Conn, error) {
	r := &snapshotReceiver{logger: verifLogger9, joinCode: joinCode}
	progressState := newReceiverProgress(0, 0, "m", "", false, "")
	probeCtx, probeCancel := context.WithCancel(ctx)
	defer probeCancel()
	acceptResCh := make(chan transfer.Conn, 1)
	go Verif_acceptOnce(r, progressState, probeCtx, acceptResCh, t, false)
	var transferConn transfer.Conn
	select {
	case <-ctx.Done():
		return nil, ctx.Err()
	case tc := <-acceptResCh:
		transferConn = tc
	}
	probeCancel()
	authCtx, authCancel := context.WithTimeout(ctx, 10*time.Second)
	defer authCancel()
	if err := authenticateTransport(authCtx, transferConn, joinCode, authRoleReceive); err != nil {
		return transferConn, err
	}
	return transferConn, nil
}

func VerifAuthSender(ctx context.Context, conn transfer.Conn, joinCode string) error {
	authCtx, authCancel := context.WithTimeout(ctx, 10*time.Second)
	defer authCancel()
	return authenticateTransport(authCtx, conn, joinCode, authRoleSender)
}
