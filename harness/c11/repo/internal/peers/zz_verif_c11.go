//go:build verif

package peers

// VerifTables reports how many routing-table entries the hub holds for a session (overlay only).
func (h *Hub) VerifTables(sessionID string) (hasSession bool, conns int, hasByPeer bool, ids int) {
	h.mu.RLock()
	defer h.mu.RUnlock()
	s, ok := h.sessions[sessionID]
	b, ok2 := h.byPeerID[sessionID]
	return ok, len(s), ok2, len(b)
}
