package main

import "fmt"

func cmdSelftest(args []string) int {
	fmt.Println("selftest: not built yet")
	return 2
}
