//go:build verif

package main

import (
	"fmt"
	"os"
	"path/filepath"
	"strings"
	"time"

	"github.com/sheerbytes/sheerbytes/internal/transfer"
	"github.com/sheerbytes/sheerbytes/internal/verif/vlib"
	vrt "github.com/sheerbytes/sheerbytes/internal/verif/vrt"
	"github.com/sheerbytes/sheerbytes/pkg/manifest"
)

// ---- C06 (b): stale, foreign or damaged resume state on top of partial states ----

type Tamper struct {
	Kind string `json:"kind"` // delete-data shorten-data damage-chunk foreign-sidecar sidecar-flip sidecar-truncate
	File int    `json:"file"` // index among the manifest's files
	Arg  int64  `json:"arg"`
}

func (t Tamper) String() string { return fmt.Sprintf("%s(file%d,%d)", t.Kind, t.File, t.Arg) }

func fileItems(p *Prepared) []manifest.FileItem {
	var out []manifest.FileItem
	for _, it := range p.M.Items {
		if !it.IsDir {
			out = append(out, it)
		}
	}
	return out
}

func applyTamper(p *Prepared, outDir string, t Tamper) {
	base := filepath.Join(outDir, p.OutBase)
	items := fileItems(p)
	it := items[t.File]
	fp := filepath.Join(base, filepath.FromSlash(it.RelPath))
	sp := transfer.SidecarPath(base, "", it.ID)
	switch t.Kind {
	case "delete-data":
		os.Remove(fp)
	case "shorten-data":
		os.Truncate(fp, t.Arg)
	case "damage-chunk":
		f, err := os.OpenFile(fp, os.O_RDWR, 0644)
		if err == nil {
			lo := t.Arg * int64(p.Case.Chunk)
			hi := lo + int64(p.Case.Chunk)
			if hi > it.Size {
				hi = it.Size
			}
			b := make([]byte, hi-lo)
			for i := range b {
				b[i] = 0xEE
			}
			f.WriteAt(b, lo)
			f.Close()
		}
	case "foreign-sidecar":
		other := items[(t.File+1)%len(items)]
		b, err := os.ReadFile(transfer.SidecarPath(base, "", other.ID))
		if err == nil {
			os.WriteFile(sp, b, 0644)
		}
	case "sidecar-flip":
		b, err := os.ReadFile(sp)
		if err == nil && int(t.Arg/8) < len(b) {
			b[t.Arg/8] ^= 1 << uint(t.Arg%8)
			os.WriteFile(sp, b, 0644)
		}
	case "sidecar-truncate":
		os.Truncate(sp, t.Arg)
	}
}

// highestMarked returns the highest chunk the pre-state marks complete for file index fi (-1: none).
func highestMarked(p *Prepared, fi int) int64 {
	it := fileItems(p)[fi]
	chunk := int64(p.Case.Chunk)
	total := (it.Size + chunk - 1) / chunk
	hi := int64(-1)
	for i := int64(0); i < total; i++ {
		mark := false
		switch p.Case.Pre {
		case "complete":
			mark = true
		case "partial":
			mark = i < (total+1)/2
		case "holes":
			mark = i%2 == 0
		case "firstchunk":
			mark = i == 0 && fi == 0
		}
		if mark {
			hi = i
		}
	}
	return hi
}

func c06Env(p *Prepared, t Tamper) *Env {
	env := &Env{}
	env.BeforeRun = func(p *Prepared, outDir string) {
		applyPre(p, outDir)
		applyTamper(p, outDir, t)
	}
	return env
}

func checkC06(p *Prepared, t Tamper, x *vrt.Exec, o *Outcome) {
	rp := replayT{Mode: "c06", Case: p.Case, Choices: append([]int{}, x.Choices()...), Extra: vlib.JSON(t)}.withCfg(x)
	switch x.Outcome {
	case "ok":
	case "exit":
		return
	case "deadlock", "stall":
		sig := hangSig(x)
		sig["tamper"] = t.Kind
		res.Violate("hang", "xfer/c06", sig, fmt.Sprintf("%s tamper %s: resumed run hangs (%s): %v", p.Case, t, x.Outcome, x.Blocked), rp)
		return
	case "panic":
		res.Violate("panic", "xfer/c06", map[string]any{"panic": x.Detail}, fmt.Sprintf("%s tamper %s: panic %s", p.Case, t, x.Detail), rp)
		return
	default:
		res.InfraError("%s tamper %s: outcome %s %s", p.Case, t, x.Outcome, x.Detail)
		return
	}
	if o.SendErr == nil && o.RecvErr == nil {
		if o.TreeDiff != "" {
			res.Violate("false-success", "xfer/c06", map[string]any{"tamper": t.Kind, "pre": p.Case.Pre},
				fmt.Sprintf("%s tamper %s: resumed run reports success on both sides but the tree differs: %s", p.Case, t, o.TreeDiff), rp)
		}
		return
	}
	// a loud failure is acceptable - except for damage to the last chunk recorded as complete,
	// which the resume must detect by hash and repair
	if t.Kind == "damage-chunk" && t.Arg == highestMarked(p, t.File) {
		sig := failureSig(o, p.Case)
		sig["tamper"] = "damage-highest-complete-chunk"
		res.Violate("failure", "xfer/c06", sig, fmt.Sprintf("%s tamper %s: damage to the highest complete chunk was not repaired: sender %v, receiver %v", p.Case, t, o.SendErr, o.RecvErr), rp)
	}
}

func modeC06() {
	res.Rule = "partial states (prefix / holes / complete, built with the repository's sidecar API) x tampers (data file deleted, shortened to every chunk boundary +-1, highest complete chunk overwritten, foreign metadata under the right name, metadata bit flips and truncations on a stride) x streams x latency, resumed transfer explored within the deviation bound (timer-first included); non-trivial = every execution; distinct by (state, tamper, trace)"
	thorough := vlib.F.Tier == "thorough"
	st := newStats()
	budget := 170 * time.Second
	if thorough {
		budget = 28 * time.Minute
	}
	deadline := time.Now().Add(budget)
	tree := []Entry{{Path: "a", Size: 12}, {Path: "b", Size: 7}}
	var cases []Case
	for _, pre := range []string{"partial", "holes", "complete"} {
		for _, s := range []int{1, 2} {
			for _, lat := range []int{0, 200} {
				cases = append(cases, Case{Tree: tree, Chunk: 4, Streams: s, Conns: 1, Resume: true, NoRootDir: true, Pre: pre, LatencyMs: lat})
			}
		}
	}
	n := 0
	for _, c := range cases {
		p, err := prepare(c)
		if err != nil {
			res.InfraError("prepare: %v", err)
			continue
		}
		items := fileItems(p)
		var tampers []Tamper
		for fi, it := range items {
			tampers = append(tampers, Tamper{"delete-data", fi, 0})
			chunk := int64(c.Chunk)
			seen := map[int64]bool{}
			for b := int64(0); b <= it.Size; b += chunk {
				for _, d := range []int64{-1, 0, 1} {
					v := b + d
					if v >= 0 && v < it.Size && !seen[v] {
						seen[v] = true
						tampers = append(tampers, Tamper{"shorten-data", fi, v})
					}
				}
			}
			if h := highestMarked(p, fi); h >= 0 {
				tampers = append(tampers, Tamper{"damage-chunk", fi, h})
			}
			tampers = append(tampers, Tamper{"foreign-sidecar", fi, 0})
			slen := int64(4 + 2 + 4 + 8 + 4 + 2 + len(it.ID) + 4 + 1 + 4)
			stride := int64(13)
			if thorough {
				stride = 3
			}
			for b := int64(0); b < slen*8; b += stride {
				tampers = append(tampers, Tamper{"sidecar-flip", fi, b})
			}
			for l := int64(0); l < slen; l += 5 {
				tampers = append(tampers, Tamper{"sidecar-truncate", fi, l})
			}
		}
		for _, t := range tampers {
			n++
			if !vlib.MineKey(fmt.Sprintf("%s|%s", keyOf(c), t)) {
				continue
			}
			t := t
			env := c06Env(p, t)
			bound := 1
			if strings.HasPrefix(t.Kind, "sidecar-") {
				bound = 0
			}
			if t.Kind == "damage-chunk" && (thorough || os.Getenv("VERIF_C06_D2") != "") && c.Streams == 1 && c.LatencyMs == 0 {
				bound = 2 // a slow verification hash on the sender needs "demote" plus a later pick
			}
			cfg := baseCfg()
			// damaged data: the sender's background hash of the verification chunk may be slow -
			// one "demote" keeps it out of the way while the rest of the file goes through
			cfg.Demote = bound > 0 && (t.Kind == "damage-chunk" || strings.HasPrefix(t.Kind, "shorten") || t.Kind == "delete-data")
			if cfg.Demote {
				// ... or late by some hundred milliseconds, so that the sender's timer-driven polls
				// (end of file, scheduler ticks) run before the hash is done
				cfg.DemoteSleep = int64(400 * time.Millisecond)
				cfg.StartPoints = t.Kind == "damage-chunk" // the hash goroutine has no point before its verdict
			}
			explore(st, p, env, bound, deadline, cfg, func(x *vrt.Exec, o *Outcome) {
				checkC06(p, t, x, o)
				res.Nontrivial(fmt.Sprintf("%s|%s|%x", keyOf(c), t, x.Trace()))
			})
			res.SampleSpread(int64(n), map[string]any{"state": c.String(), "tamper": t.String()})
		}
		st.cases++
		os.RemoveAll(p.SrcRoot)
	}
	res.Extra["tamper_cases"] = float64(n)
	st.finish()
	_ = time.Now
}
