package vrt

import (
	"fmt"
	"reflect"
	"sort"
)

// ---- sync.Mutex ----

type Mutex struct {
	held bool
}

func (m *Mutex) Lock() {
	x := X
	if x.teardown {
		return
	}
	if x.cfg.LockPoints || m.held {
		x.yield(func() bool { return !m.held }, "lock")
	}
	m.held = true
}

func (m *Mutex) TryLock() bool {
	if X.teardown {
		return true
	}
	if m.held {
		return false
	}
	m.held = true
	return true
}

func (m *Mutex) Unlock() {
	if X.teardown {
		return
	}
	if !m.held {
		panic("sync: unlock of unlocked mutex")
	}
	m.held = false
}

// ---- sync.RWMutex (writer preference as in Go) ----

type RWMutex struct {
	w        bool
	r        int
	wwaiting int
}

func (m *RWMutex) Lock() {
	x := X
	if x.teardown {
		return
	}
	// The scheduling point stands for the instant before the call: the writer only counts as
	// waiting (and holds back new readers, as sync.RWMutex does) once it has really found the
	// lock taken.
	if x.cfg.LockPoints {
		x.yield(nil, "wlock")
	}
	if m.w || m.r != 0 {
		m.wwaiting++
		x.yield(func() bool { return !m.w && m.r == 0 }, "wlock-wait")
		m.wwaiting--
	}
	m.w = true
}

func (m *RWMutex) Unlock() {
	if X.teardown {
		return
	}
	if !m.w {
		panic("sync: Unlock of unlocked RWMutex")
	}
	m.w = false
}

func (m *RWMutex) RLock() {
	x := X
	if x.teardown {
		return
	}
	if x.cfg.LockPoints || m.w || m.wwaiting != 0 {
		x.yield(func() bool { return !m.w && m.wwaiting == 0 }, "rlock")
	}
	m.r++
}

func (m *RWMutex) RUnlock() {
	if X.teardown {
		return
	}
	if m.r <= 0 {
		panic("sync: RUnlock of unlocked RWMutex")
	}
	m.r--
}

// ---- sync.Once ----

type Once struct {
	done    bool
	running bool
}

func (o *Once) Do(f func()) {
	x := X
	if x.teardown {
		return
	}
	if o.done {
		return
	}
	x.yield(func() bool { return !o.running }, "once")
	if o.done {
		return
	}
	o.running = true
	defer func() { o.running = false; o.done = true }()
	f()
}

// ---- sync.WaitGroup ----

type WaitGroup struct{ n int }

func (w *WaitGroup) Add(d int) {
	if X.teardown {
		return
	}
	w.n += d
	if w.n < 0 {
		panic("sync: negative WaitGroup counter")
	}
}
func (w *WaitGroup) Done() { w.Add(-1) }
func (w *WaitGroup) Wait() {
	x := X
	if x.teardown {
		return
	}
	x.yield(func() bool { return w.n <= 0 }, "wgwait")
}

// Go mirrors sync.WaitGroup.Go (Go 1.25); harmless on older toolchains.
func (w *WaitGroup) Go(f func()) {
	w.Add(1)
	Go(func() { defer w.Done(); f() })
}

// ---- sync.Pool: deterministic LIFO ----

type Pool struct {
	New   func() any
	items []any
}

func (p *Pool) Get() any {
	if n := len(p.items); n > 0 {
		v := p.items[n-1]
		p.items = p.items[:n-1]
		return v
	}
	if p.New != nil {
		return p.New()
	}
	return nil
}

func (p *Pool) Put(v any) {
	if v == nil {
		return
	}
	if len(p.items) < 64 {
		p.items = append(p.items, v)
	}
}

// ---- sync.Map: mutex + map ----

type Map struct {
	m map[any]any
}

func (m *Map) Load(k any) (any, bool) { v, ok := m.m[k]; return v, ok }
func (m *Map) Store(k, v any) {
	if m.m == nil {
		m.m = map[any]any{}
	}
	m.m[k] = v
}
func (m *Map) LoadOrStore(k, v any) (any, bool) {
	if old, ok := m.m[k]; ok {
		return old, true
	}
	m.Store(k, v)
	return v, false
}
func (m *Map) LoadAndDelete(k any) (any, bool) {
	v, ok := m.m[k]
	delete(m.m, k)
	return v, ok
}
func (m *Map) Delete(k any) { delete(m.m, k) }
func (m *Map) Range(f func(k, v any) bool) {
	keys := make([]any, 0, len(m.m))
	for k := range m.m {
		keys = append(keys, k)
	}
	sort.Slice(keys, func(i, j int) bool { return fmt.Sprint(keys[i]) < fmt.Sprint(keys[j]) })
	for _, k := range keys {
		if v, ok := m.m[k]; ok {
			if !f(k, v) {
				return
			}
		}
	}
}

// ---- atomics: a point before the operation, then the plain operation (one thread runs at a time) ----

func atomicPoint() {
	x := X
	if x.teardown || !x.cfg.AtomicPoints {
		return
	}
	x.yield(nil, "atomic")
}

type integer interface {
	~int32 | ~int64 | ~uint32 | ~uint64 | ~uintptr
}

func AtomicAdd[T integer](p *T, d T) T  { atomicPoint(); *p += d; return *p }
func AtomicLoad[T integer](p *T) T      { atomicPoint(); return *p }
func AtomicStore[T integer](p *T, v T)  { atomicPoint(); *p = v }
func AtomicSwap[T integer](p *T, v T) T { atomicPoint(); o := *p; *p = v; return o }
func AtomicCAS[T integer](p *T, o, n T) bool {
	atomicPoint()
	if *p == o {
		*p = n
		return true
	}
	return false
}

// typed atomics (atomic.Int32 etc.): same discipline, method form.

type AtomicInt[T integer] struct{ v T }

func (a *AtomicInt[T]) Load() T    { atomicPoint(); return a.v }
func (a *AtomicInt[T]) Store(v T)  { atomicPoint(); a.v = v }
func (a *AtomicInt[T]) Add(d T) T  { atomicPoint(); a.v += d; return a.v }
func (a *AtomicInt[T]) Swap(v T) T { atomicPoint(); o := a.v; a.v = v; return o }
func (a *AtomicInt[T]) CompareAndSwap(o, n T) bool {
	atomicPoint()
	if a.v == o {
		a.v = n
		return true
	}
	return false
}

type AtomicInt32 = AtomicInt[int32]
type AtomicInt64 = AtomicInt[int64]
type AtomicUint32 = AtomicInt[uint32]
type AtomicUint64 = AtomicInt[uint64]
type AtomicUintptr = AtomicInt[uintptr]

type AtomicBool struct{ v bool }

func (a *AtomicBool) Load() bool       { atomicPoint(); return a.v }
func (a *AtomicBool) Store(v bool)     { atomicPoint(); a.v = v }
func (a *AtomicBool) Swap(v bool) bool { atomicPoint(); o := a.v; a.v = v; return o }
func (a *AtomicBool) CompareAndSwap(o, n bool) bool {
	atomicPoint()
	if a.v == o {
		a.v = n
		return true
	}
	return false
}

type AtomicPointer[T any] struct{ v *T }

func (a *AtomicPointer[T]) Load() *T     { atomicPoint(); return a.v }
func (a *AtomicPointer[T]) Store(v *T)   { atomicPoint(); a.v = v }
func (a *AtomicPointer[T]) Swap(v *T) *T { atomicPoint(); o := a.v; a.v = v; return o }
func (a *AtomicPointer[T]) CompareAndSwap(o, n *T) bool {
	atomicPoint()
	if a.v == o {
		a.v = n
		return true
	}
	return false
}

type AtomicValue struct{ v any }

func (a *AtomicValue) Load() any      { atomicPoint(); return a.v }
func (a *AtomicValue) Store(v any)    { atomicPoint(); a.v = v }
func (a *AtomicValue) Swap(v any) any { atomicPoint(); o := a.v; a.v = v; return o }
func (a *AtomicValue) CompareAndSwap(o, n any) bool {
	atomicPoint()
	if a.v == o {
		a.v = n
		return true
	}
	return false
}

// ---- maps: canonical iteration order ----

// MapKeys returns the keys of m in a canonical order: strings and numbers by value, pointers by
// first-registration id, everything else by printed form.
func MapKeys[K comparable, V any](m map[K]V) []K {
	keys := make([]K, 0, len(m))
	for k := range m {
		keys = append(keys, k)
	}
	if len(keys) < 2 {
		return keys
	}
	var zero K
	rt := reflect.TypeOf(zero)
	kind := reflect.Invalid
	if rt != nil {
		kind = rt.Kind()
	}
	switch kind {
	case reflect.String:
		sort.Slice(keys, func(i, j int) bool { return reflect.ValueOf(keys[i]).String() < reflect.ValueOf(keys[j]).String() })
	case reflect.Int, reflect.Int8, reflect.Int16, reflect.Int32, reflect.Int64:
		sort.Slice(keys, func(i, j int) bool { return reflect.ValueOf(keys[i]).Int() < reflect.ValueOf(keys[j]).Int() })
	case reflect.Uint, reflect.Uint8, reflect.Uint16, reflect.Uint32, reflect.Uint64, reflect.Uintptr:
		sort.Slice(keys, func(i, j int) bool { return reflect.ValueOf(keys[i]).Uint() < reflect.ValueOf(keys[j]).Uint() })
	case reflect.Pointer, reflect.Chan, reflect.UnsafePointer:
		// Known pointers keep their registration order; unknown ones are registered now in the
		// order of their printed pointee (best effort) and then by address.
		x := X
		type kp struct {
			k  K
			id int
			s  string
		}
		kps := make([]kp, len(keys))
		for i, k := range keys {
			p := reflect.ValueOf(k).Pointer()
			id, ok := x.objIDs[p]
			if !ok {
				id = 1 << 30
			}
			kps[i] = kp{k, id, ""}
		}
		for i := range kps {
			if kps[i].id == 1<<30 {
				kps[i].s = fmt.Sprintf("%+v", reflect.Indirect(reflect.ValueOf(kps[i].k)))
			}
		}
		sort.SliceStable(kps, func(i, j int) bool {
			if kps[i].id != kps[j].id {
				return kps[i].id < kps[j].id
			}
			return kps[i].s < kps[j].s
		})
		for i := range kps {
			x.objID(reflect.ValueOf(kps[i].k).Pointer())
			keys[i] = kps[i].k
		}
	default:
		sort.Slice(keys, func(i, j int) bool { return fmt.Sprintf("%v", keys[i]) < fmt.Sprintf("%v", keys[j]) })
	}
	return keys
}

// RangeMap iterates m in canonical key order; entries deleted during the loop are skipped,
// entries added during the loop are not visited.
func RangeMap[K comparable, V any](m map[K]V) func(func(K, V) bool) {
	return func(yield func(K, V) bool) {
		for _, k := range MapKeys(m) {
			v, ok := m[k]
			if !ok {
				continue
			}
			if !yield(k, v) {
				return
			}
		}
	}
}

// RegisterObj gives a pointer a stable id now (harnesses call it on creation of objects that
// end up as map keys).
func RegisterObj(p any) {
	v := reflect.ValueOf(p)
	if v.Kind() == reflect.Pointer || v.Kind() == reflect.Chan {
		X.objID(v.Pointer())
	}
}
