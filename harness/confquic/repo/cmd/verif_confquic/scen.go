//go:build verif

package main

// QUIC conformance scenarios. One source, two builds: against real quic-go over loopback UDP
// (uninstrumented), and against the vquic model under the controlled scheduler (the import of
// quic-go is re-mapped). Connections are made with the repository's own quictransport and
// wrapped with its transferquic types, so the scenarios see exactly what the transfer code sees.

import (
	"context"
	"errors"
	"fmt"
	"io"
	"log/slog"
	"net"
	"os"
	"strings"
	"time"

	"github.com/sheerbytes/sheerbytes/internal/quictransport"
	"github.com/sheerbytes/sheerbytes/internal/transfer"
	"github.com/sheerbytes/sheerbytes/internal/transferquic"
)

var quiet = slog.New(slog.NewTextHandler(io.Discard, nil))

type pair struct {
	c, s     transfer.Conn
	cleanups []func()
}

func (p *pair) close() {
	for i := len(p.cleanups) - 1; i >= 0; i-- {
		p.cleanups[i]()
	}
}

func udp() net.PacketConn {
	c, err := net.ListenUDP("udp", &net.UDPAddr{IP: net.IPv4(127, 0, 0, 1)})
	if err != nil {
		panic(err)
	}
	return c
}

func connect() (*pair, error) {
	p := &pair{}
	su, cu := udp(), udp()
	p.cleanups = append(p.cleanups, func() { su.Close(); cu.Close() })
	ctx, cancel := context.WithTimeout(context.Background(), 5*time.Second)
	defer cancel()
	l, err := quictransport.Listen(ctx, su, quiet)
	if err != nil {
		return p, err
	}
	lt := transferquic.NewListener(l, quiet)
	p.cleanups = append(p.cleanups, func() { lt.Close() })
	type res struct {
		c   transfer.Conn
		err error
	}
	ch := make(chan res, 1)
	go func() {
		c, err := lt.Accept(ctx)
		ch <- res{c, err}
	}()
	qc, err := quictransport.Dial(ctx, cu, su.LocalAddr(), quiet)
	if err != nil {
		return p, err
	}
	cc, err := transferquic.NewDialer(qc, quiet).Dial(ctx, "peer")
	if err != nil {
		return p, err
	}
	r := <-ch
	if r.err != nil {
		return p, r.err
	}
	p.c, p.s = cc, r.c
	p.cleanups = append(p.cleanups, func() { cc.Close(); r.c.Close() })
	return p, nil
}

func class(err error) string {
	if err == nil {
		return "nil"
	}
	s := err.Error()
	var ne net.Error
	switch {
	case errors.Is(err, io.EOF):
		return "EOF"
	case strings.Contains(s, "Application error 0x0 (remote)"):
		return "app-error-0-remote"
	case strings.Contains(s, "Application error 0x0 (local)"):
		return "app-error-0-local"
	case errors.Is(err, context.DeadlineExceeded), errors.Is(err, os.ErrDeadlineExceeded):
		return "deadline"
	case errors.As(err, &ne) && ne.Timeout():
		return "deadline"
	case errors.Is(err, context.Canceled):
		return "canceled"
	case strings.Contains(s, "closed"):
		return "closed"
	}
	return "other:" + s
}

func acceptWithin(c transfer.Conn, d time.Duration) (transfer.Stream, error) {
	ctx, cancel := context.WithTimeout(context.Background(), d)
	defer cancel()
	return c.AcceptStream(ctx)
}

func sid(s transfer.Stream) uint64 {
	if x, ok := s.(interface{ StreamID() uint64 }); ok {
		return x.StreamID()
	}
	return 999
}

type scenario struct {
	name string
	f    func() string
}

const settle = 150 * time.Millisecond

var scenarios = []scenario{
	{"three-streams-write-on-last", func() string {
		p, err := connect()
		defer p.close()
		if err != nil {
			return "connect: " + err.Error()
		}
		var ss []transfer.Stream
		for i := 0; i < 3; i++ {
			s, err := p.c.OpenStream(context.Background())
			if err != nil {
				return "open: " + err.Error()
			}
			ss = append(ss, s)
		}
		ss[2].Write([]byte{1})
		out := "opened"
		for _, s := range ss {
			out += fmt.Sprint(" ", sid(s))
		}
		out += " accepted"
		for i := 0; i < 3; i++ {
			s, err := acceptWithin(p.s, settle)
			if err != nil {
				out += " " + class(err)
				break
			}
			out += fmt.Sprint(" ", sid(s))
		}
		return out
	}},
	{"stream-invisible-until-it-or-a-higher-one-carries-a-frame", func() string {
		p, err := connect()
		defer p.close()
		if err != nil {
			return "connect: " + err.Error()
		}
		s0, _ := p.c.OpenStream(context.Background())
		p.c.OpenStream(context.Background())
		s0.Write([]byte{1})
		out := "accepted"
		for i := 0; i < 2; i++ {
			s, err := acceptWithin(p.s, settle)
			if err != nil {
				out += " " + class(err)
				break
			}
			out += fmt.Sprint(" ", sid(s))
		}
		return out
	}},
	{"no-frame-no-stream", func() string {
		p, err := connect()
		defer p.close()
		if err != nil {
			return "connect: " + err.Error()
		}
		p.c.OpenStream(context.Background())
		_, err = acceptWithin(p.s, settle)
		return class(err)
	}},
	{"close-of-unused-stream-makes-it-visible", func() string {
		p, err := connect()
		defer p.close()
		if err != nil {
			return "connect: " + err.Error()
		}
		s0, _ := p.c.OpenStream(context.Background())
		s0.Close()
		s, err := acceptWithin(p.s, settle)
		if err != nil {
			return class(err)
		}
		buf := make([]byte, 4)
		n, err := s.Read(buf)
		return fmt.Sprint("accepted ", sid(s), " read ", n, " ", class(err))
	}},
	{"fin-gives-data-then-eof", func() string {
		p, err := connect()
		defer p.close()
		if err != nil {
			return "connect: " + err.Error()
		}
		s0, _ := p.c.OpenStream(context.Background())
		s0.Write([]byte("abc"))
		s0.Close()
		s, err := acceptWithin(p.s, settle)
		if err != nil {
			return class(err)
		}
		b, err := io.ReadAll(s)
		return fmt.Sprintf("%q %s", b, class(err))
	}},
	{"close-write-keeps-read-side", func() string {
		p, err := connect()
		defer p.close()
		if err != nil {
			return "connect: " + err.Error()
		}
		s0, _ := p.c.OpenStream(context.Background())
		s0.Write([]byte("q"))
		s0.Close() // FIN of the send side only
		s, err := acceptWithin(p.s, settle)
		if err != nil {
			return class(err)
		}
		io.ReadAll(s)
		s.Write([]byte("reply"))
		s.Close()
		b, err := io.ReadAll(s0)
		return fmt.Sprintf("%q %s", b, class(err))
	}},
	{"write-after-own-fin", func() string {
		p, err := connect()
		defer p.close()
		if err != nil {
			return "connect: " + err.Error()
		}
		s0, _ := p.c.OpenStream(context.Background())
		s0.Write([]byte("x"))
		s0.Close()
		_, err = s0.Write([]byte("y"))
		if err == nil {
			return "nil"
		}
		return "error"
	}},
	{"peer-close-fails-blocked-read", func() string {
		p, err := connect()
		defer p.close()
		if err != nil {
			return "connect: " + err.Error()
		}
		s0, _ := p.c.OpenStream(context.Background())
		s0.Write([]byte{1})
		s, err := acceptWithin(p.s, settle)
		if err != nil {
			return class(err)
		}
		buf := make([]byte, 1)
		s.Read(buf)
		got := make(chan string, 1)
		go func() {
			_, err := s.Read(buf)
			got <- class(err)
		}()
		time.Sleep(50 * time.Millisecond)
		p.c.Close()
		select {
		case r := <-got:
			return r
		case <-time.After(2 * time.Second):
			return "still blocked"
		}
	}},
	{"own-close-fails-later-operations", func() string {
		p, err := connect()
		defer p.close()
		if err != nil {
			return "connect: " + err.Error()
		}
		s0, _ := p.c.OpenStream(context.Background())
		s0.Write([]byte{1})
		p.c.Close()
		_, werr := s0.Write([]byte{2})
		_, oerr := p.c.OpenStream(context.Background())
		_, aerr := acceptWithin(p.c, settle)
		return fmt.Sprint("write ", class(werr), " open ", class(oerr), " accept ", class(aerr))
	}},
	{"peer-close-fails-accept-and-open", func() string {
		p, err := connect()
		defer p.close()
		if err != nil {
			return "connect: " + err.Error()
		}
		p.c.Close()
		time.Sleep(settle)
		_, aerr := acceptWithin(p.s, settle)
		_, oerr := p.s.OpenStream(context.Background())
		return fmt.Sprint("accept ", class(aerr), " open ", class(oerr))
	}},
	{"unread-data-is-lost-when-the-peer-closes-the-connection", func() string {
		p, err := connect()
		defer p.close()
		if err != nil {
			return "connect: " + err.Error()
		}
		s0, _ := p.c.OpenStream(context.Background())
		s0.Write([]byte("hello"))
		s, err := acceptWithin(p.s, settle)
		if err != nil {
			return class(err)
		}
		time.Sleep(settle) // the data has arrived and sits unread
		p.c.Close()
		time.Sleep(settle)
		b, err := io.ReadAll(s)
		return fmt.Sprintf("%q %s", b, class(err))
	}},
	{"exporter-equal-on-a-connection-different-across", func() string {
		p, err := connect()
		defer p.close()
		if err != nil {
			return "connect: " + err.Error()
		}
		q, err := connect()
		defer q.close()
		if err != nil {
			return "connect: " + err.Error()
		}
		ex := func(c transfer.Conn) string {
			e, ok := c.(interface {
				ExportKeyingMaterial(string, []byte, int) ([]byte, error)
			})
			if !ok {
				return "no-exporter"
			}
			b, err := e.ExportKeyingMaterial("thruflux conformance", []byte("ctx"), 32)
			if err != nil {
				return "err:" + err.Error()
			}
			return fmt.Sprintf("%d:%x", len(b), b)
		}
		a, b, c := ex(p.c), ex(p.s), ex(q.c)
		return fmt.Sprint("len ", strings.SplitN(a, ":", 2)[0], " same-conn-equal ", a == b, " other-conn-equal ", a == c)
	}},
	{"read-deadline", func() string {
		p, err := connect()
		defer p.close()
		if err != nil {
			return "connect: " + err.Error()
		}
		s0, _ := p.c.OpenStream(context.Background())
		s0.Write([]byte{1})
		s, err := acceptWithin(p.s, settle)
		if err != nil {
			return class(err)
		}
		buf := make([]byte, 1)
		s.Read(buf)
		dl, ok := s.(interface{ SetReadDeadline(time.Time) error })
		if !ok {
			return "no deadlines"
		}
		dl.SetReadDeadline(time.Now().Add(50 * time.Millisecond))
		_, err = s.Read(buf)
		first := class(err)
		dl.SetReadDeadline(time.Time{})
		s0.Write([]byte{2})
		n, err := s.Read(buf)
		return fmt.Sprint(first, " then ", n, " ", class(err))
	}},
	{"accept-cancelled-by-context", func() string {
		p, err := connect()
		defer p.close()
		if err != nil {
			return "connect: " + err.Error()
		}
		ctx, cancel := context.WithCancel(context.Background())
		go func() { time.Sleep(50 * time.Millisecond); cancel() }()
		_, err = p.s.AcceptStream(ctx)
		return class(err)
	}},
	{"server-opened-stream-ids", func() string {
		p, err := connect()
		defer p.close()
		if err != nil {
			return "connect: " + err.Error()
		}
		a, _ := p.s.OpenStream(context.Background())
		b, _ := p.s.OpenStream(context.Background())
		a.Write([]byte{1})
		b.Write([]byte{1})
		x, err := acceptWithin(p.c, settle)
		if err != nil {
			return class(err)
		}
		y, err := acceptWithin(p.c, settle)
		if err != nil {
			return class(err)
		}
		return fmt.Sprint("opened ", sid(a), " ", sid(b), " accepted ", sid(x), " ", sid(y))
	}},
	{"partial-reads-keep-order", func() string {
		p, err := connect()
		defer p.close()
		if err != nil {
			return "connect: " + err.Error()
		}
		s0, _ := p.c.OpenStream(context.Background())
		s0.Write([]byte("abcdef"))
		s0.Write([]byte("gh"))
		s0.Close()
		s, err := acceptWithin(p.s, settle)
		if err != nil {
			return class(err)
		}
		out := ""
		buf := make([]byte, 4)
		for {
			n, err := io.ReadFull(s, buf)
			out += string(buf[:n])
			if err != nil {
				return out + " " + class(errors.Join(err))
			}
		}
	}},
	{"dial-nobody-listening", func() string {
		cu := udp()
		defer cu.Close()
		dead := udp()
		addr := dead.LocalAddr()
		dead.Close()
		ctx, cancel := context.WithTimeout(context.Background(), 300*time.Millisecond)
		defer cancel()
		_, err := quictransport.Dial(ctx, cu, addr, quiet)
		if err == nil {
			return "connected"
		}
		return "error"
	}},
	{"listener-closed-fails-accept", func() string {
		su := udp()
		defer su.Close()
		l, err := quictransport.Listen(context.Background(), su, quiet)
		if err != nil {
			return err.Error()
		}
		lt := transferquic.NewListener(l, quiet)
		got := make(chan string, 1)
		go func() {
			_, err := lt.Accept(context.Background())
			if err == nil {
				got <- "nil"
			} else {
				got <- "error"
			}
		}()
		time.Sleep(50 * time.Millisecond)
		lt.Close()
		select {
		case r := <-got:
			return r
		case <-time.After(2 * time.Second):
			return "still blocked"
		}
	}},
}
