#!/usr/bin/env python3
# Regenerates the table of seeded changes in DESIGN.md (section 6) from seeded/*/meta.json and seeded/RESULTS.txt.
import json,glob,os,re
res={}
hdr=''
for l in open('/verif/seeded/RESULTS.txt'):
    if l.startswith('#'): hdr=l.strip('# \n'); continue
    f=[x.strip() for x in l.split('|')]
    if len(f)>=2: res[f[0]]=f
rows=['| seeded change | property | what was changed | quick check of its property | replay (changed / unchanged tree) |','|---|---|---|---|---|']
caught=missed=obs=0
for d in sorted(glob.glob('/verif/seeded/*/meta.json')):
    name=os.path.basename(os.path.dirname(d)); m=json.load(open(d))
    r=res.get(name)
    summ=re.sub(r'\s+',' ',m['summary'])[:230]
    if m.get('status_on_current_tree'):
        obs+=1; rows.append(f"| {name} | {m['property']} | {summ} | obsolete on the repaired tree | - |"); continue
    if not r: rows.append(f"| {name} | {m['property']} | {summ} | (not run) | |"); continue
    cb=m.get('checked_by')
    if 'rc=1' in r[2]: caught+=1; v=f"exit 1, {r[3]} violation class(es)"+(f" — by the {cb} check; the {m['property']} check does not reach it (see note)" if cb else '')
    elif 'rc=0' in r[2]: missed+=1; v="**missed** (exit 0)"
    else: v=r[2]
    rows.append(f"| {name} | {m['property']} | {summ} | {v} | {r[4] if len(r)>4 else ''} / {r[5] if len(r)>5 else ''} |")
txt=f"Run: {hdr}. Caught {caught}, missed {missed}, obsolete {obs} (of {caught+missed+obs}).\n\n"+"\n".join(rows)
p='/verif/DESIGN.md'; s=open(p).read()
a=s.index('<!-- SEEDS-BEGIN -->')+len('<!-- SEEDS-BEGIN -->'); b=s.index('<!-- SEEDS-END -->')
open(p,'w').write(s[:a]+"\n"+txt+"\n"+s[b:])
print(f"caught {caught} missed {missed} obsolete {obs}")
