//go:build verif

package main

import (
	"context"
	"crypto/hmac"
	"crypto/sha1"
	"encoding/base64"
	"fmt"
	"io"
	"log/slog"
	"strconv"
	"strings"
	"time"

	"github.com/sheerbytes/sheerbytes/internal/app"
	"github.com/sheerbytes/sheerbytes/internal/clienthttp"
	"github.com/sheerbytes/sheerbytes/internal/ice"
	"github.com/sheerbytes/sheerbytes/internal/verif/vlib"
	vrt "github.com/sheerbytes/sheerbytes/internal/verif/vrt"
	"github.com/sheerbytes/sheerbytes/internal/wsclient"
	"github.com/sheerbytes/sheerbytes/pkg/protocol"
)

// ---- C16: the real client functions against the real server under every documented configuration ----

type flagDim struct {
	name   string
	values []string // "" = flag absent (default)
}

var c16Dims = []flagDim{
	{"--max-sessions", []string{"", "1", "0"}},
	{"--max-receivers-per-sender", []string{"", "1", "0"}},
	{"--max-message-bytes", []string{"", "4096", "0"}},
	{"--ws-connects-per-min", []string{"", "1", "0"}},
	{"--ws-msgs-per-sec", []string{"", "1", "0"}},
	{"--session-creates-per-min", []string{"", "1", "0"}},
	{"--max-ws-connections", []string{"", "2", "0"}},
	{"--ws-idle-timeout", []string{"", "1s", "0"}},
	{"--session-timeout", []string{"", "1m", "0"}},
}

type turnSpelling struct {
	flag            string // value of --turn-server
	addr            []string
	tls, tcp        []bool
	sni             []string
	clientMayRefuse bool
}

var c16Turn = []turnSpelling{
	{flag: "turn:relay.test:3478", addr: []string{"relay.test:3478"}, tls: []bool{false}, tcp: []bool{false}, sni: []string{"relay.test"}},
	{flag: "turns:relay.test:5349", addr: []string{"relay.test:5349"}, tls: []bool{true}, tcp: []bool{true}, sni: []string{"relay.test"}},
	{flag: "turn://relay.test:3478", addr: []string{"relay.test:3478"}, tls: []bool{false}, tcp: []bool{false}, sni: []string{"relay.test"}},
	{flag: "turns://relay.test:5349", addr: []string{"relay.test:5349"}, tls: []bool{true}, tcp: []bool{true}, sni: []string{"relay.test"}},
	{flag: "relay.test:3478", addr: []string{"relay.test:3478"}, tls: []bool{false}, tcp: []bool{false}, sni: []string{"relay.test"}},
	{flag: "turns:stun.bytepipe.app:5349?servername=stun.bytepipe.app", addr: []string{"stun.bytepipe.app:5349"}, tls: []bool{true}, tcp: []bool{true}, sni: []string{"stun.bytepipe.app"}},
	{flag: "turns:10.0.0.5:5349?servername=sni.test", addr: []string{"10.0.0.5:5349"}, tls: []bool{true}, tcp: []bool{true}, sni: []string{"sni.test"}},
	{flag: "turn:relay.test:3478?transport=tcp", addr: []string{"relay.test:3478"}, tls: []bool{false}, tcp: []bool{true}, sni: []string{"relay.test"}},
	{flag: "turn:relay.test:3478?transport=udp", addr: []string{"relay.test:3478"}, tls: []bool{false}, tcp: []bool{false}, sni: []string{"relay.test"}},
	{flag: "turn:[2001:db8::1]:3478", addr: []string{"[2001:db8::1]:3478"}, tls: []bool{false}, tcp: []bool{false}, sni: []string{"2001:db8::1"}},
	{flag: "turn:old:stale@relay.test:3478", addr: []string{"relay.test:3478"}, tls: []bool{false}, tcp: []bool{false}, sni: []string{"relay.test"}},
	{flag: " turn:relay.test:3478 ", addr: []string{"relay.test:3478"}, tls: []bool{false}, tcp: []bool{false}, sni: []string{"relay.test"}},
	{flag: "turn:a.test:3478,turns:b.test:5349?servername=b.test", addr: []string{"a.test:3478", "b.test:5349"}, tls: []bool{false, true}, tcp: []bool{false, true}, sni: []string{"a.test", "b.test"}},
}

var c16Secrets = []string{"s3cret", "p@ss:w/ord+=?#%", "é secret"}
var c16PeerIDs = []string{"alice", "a b", "a+b", "a&b=c", "a/b", "a?b", "a#b", "a%41", "a%", "%zz", "a:b", "a@b", "é", "a;b", "a\"b"}
var c16CredTTL = []string{"", "1s", "0"}

type c16Case struct {
	Args        []string `json:"args"`
	HostID      string   `json:"host_id"`
	RecvID      string   `json:"recv_id"`
	ClientMaxRx int      `json:"client_max_receivers"`
	Turn        int      `json:"turn"` // index into c16Turn, -1 = off
	Secret      string   `json:"secret,omitempty"`
	CredTTL     string   `json:"cred_ttl,omitempty"`
}

func (c c16Case) String() string {
	return fmt.Sprintf("thruserv %s | host=%q recv=%q --max-receivers %d", strings.Join(c.Args, " "), c.HostID, c.RecvID, c.ClientMaxRx)
}

type realClient struct {
	conn *wsclient.Conn
	got  []protocol.Envelope
	err  error
}

func dialReal(url string) *realClient {
	logger := slog.New(slog.NewTextHandler(io.Discard, nil))
	ctx, cancel := context.WithTimeout(context.Background(), 5*time.Second)
	defer cancel()
	conn, err := wsclient.Dial(ctx, url, logger)
	rc := &realClient{conn: conn, err: err}
	if err != nil {
		return rc
	}
	vrt.GoNamed("readloop", "client", func() {
		conn.ReadLoop(context.Background(), func(env protocol.Envelope) { rc.got = append(rc.got, env) })
	})
	return rc
}

// c16Run executes one case and returns violations as (class, message).
func c16Run(c c16Case) (viol [][2]string) {
	bad := func(cls, f string, a ...any) { viol = append(viol, [2]string{cls, fmt.Sprintf(f, a...)}) }
	startServer(c.Args)
	flagVal := func(name string) (string, bool) {
		for i := 0; i+1 < len(c.Args); i += 2 {
			if c.Args[i] == name {
				return c.Args[i+1], true
			}
		}
		return "", false
	}
	t0 := vrt.Now()
	// 1. the host creates a session with the real client function
	id, code, exp, err := clienthttp.CreateSession(context.Background(), serverURL, c.ClientMaxRx)
	limit := 10
	if v, ok := flagVal("--max-receivers-per-sender"); ok {
		limit, _ = strconv.Atoi(v)
	}
	if limit > 0 && c.ClientMaxRx > limit {
		// the documented refusal: the host asked for more receivers than this server allows
		if err == nil || !strings.Contains(err.Error(), "429") {
			bad("limit-not-enforced", "--max-receivers %d above the server limit %d was answered %v", c.ClientMaxRx, limit, err)
		}
		return
	}
	if err != nil {
		bad("host-cannot-create-session", "clienthttp.CreateSession failed: %v", err)
		return
	}
	if id == "" || code == "" {
		bad("host-cannot-create-session", "CreateSession returned id=%q code=%q", id, code)
		return
	}
	ttl := 24 * time.Hour
	if v, ok := flagVal("--session-timeout"); ok {
		ttl, _ = time.ParseDuration(v)
	}
	if ttl == 0 {
		if !exp.IsZero() {
			bad("expiry-differs", "no session lifetime configured but the client decoded expires_at=%v", exp)
		}
	} else if d := exp.Sub(t0.Add(ttl)); d < -time.Second || d > time.Second {
		bad("expiry-differs", "client decoded expires_at=%v, the server intended %v", exp, t0.Add(ttl))
	}
	// 2. both roles connect with the URL the client builds
	connectAs := func(peer, role string, maxRx int) *realClient {
		u, err := app.VerifBuildWebSocketURL(serverURL, code, peer, role, maxRx)
		if err != nil {
			bad("client-cannot-build-url", "buildWebSocketURL(%q,%q): %v", peer, role, err)
			return nil
		}
		rc := dialReal(u)
		if rc.err != nil {
			bad(role+"-cannot-connect", "wsclient.Dial(%s): %v", u, rc.err)
			return nil
		}
		return rc
	}
	host := connectAs(c.HostID, "sender", c.ClientMaxRx)
	if host == nil {
		return
	}
	recv := connectAs(c.RecvID, "receiver", 0)
	if recv == nil {
		return
	}
	vrt.Sleep(lifeSettle)
	// the server knows both peers under exactly the ids the clients meant
	var list protocol.PeerList
	for _, e := range recv.got {
		if e.Type == protocol.TypePeerList {
			e.DecodePayload(&list)
		}
	}
	ids := map[string]string{}
	for _, p := range list.Peers {
		ids[p.PeerID] = p.Role
	}
	if ids[c.HostID] != "sender" || ids[c.RecvID] != "receiver" || len(ids) != 2 {
		bad("peer-id-altered", "the receiver's peer list is %v, expected %q as sender and %q as receiver", ids, c.HostID, c.RecvID)
	}
	// one addressed message each way
	offer, _ := protocol.NewEnvelope("manifest_offer", "m1", map[string]string{"k": "v"})
	offer.To = c.RecvID
	host.conn.Send(offer)
	ans, _ := protocol.NewEnvelope("manifest_accept", "m2", nil)
	ans.To = c.HostID
	recv.conn.Send(ans)
	vrt.Sleep(lifeSettle)
	has := func(rc *realClient, id, from string) bool {
		for _, e := range rc.got {
			if e.MsgID == id && e.From == from {
				return true
			}
		}
		return false
	}
	if !has(recv, "m1", c.HostID) || !has(host, "m2", c.RecvID) {
		bad("message-not-relayed", "host->receiver delivered=%v receiver->host delivered=%v", has(recv, "m1", c.HostID), has(host, "m2", c.RecvID))
	}
	// 3. relay credentials
	for _, pc := range []struct {
		rc *realClient
		id string
	}{{host, c.HostID}, {recv, c.RecvID}} {
		var creds *protocol.TurnCredentials
		for _, e := range pc.rc.got {
			if e.Type == protocol.TypeTurnCredentials {
				var tc protocol.TurnCredentials
				if err := e.DecodePayload(&tc); err != nil {
					bad("turn-credentials-undecodable", "%v", err)
				}
				creds = &tc
			}
		}
		if c.Turn < 0 {
			if creds != nil {
				bad("turn-credentials-unexpected", "TURN issuing is off but %q received credentials", pc.id)
			}
			continue
		}
		sp := c16Turn[c.Turn]
		if creds == nil {
			bad("turn-credentials-missing", "TURN issuing is on (%q) but %q received none", sp.flag, pc.id)
			continue
		}
		credTTL := time.Hour
		if c.CredTTL != "" {
			if d, _ := time.ParseDuration(c.CredTTL); d > 0 {
				credTTL = d
			}
		}
		if len(creds.Servers) != len(sp.addr) {
			bad("turn-endpoint-differs", "%d servers issued for %q", len(creds.Servers), sp.flag)
			continue
		}
		for i, raw := range creds.Servers {
			t, err := ice.VerifParseTurnServer(raw)
			if err != nil {
				bad("turn-url-refused-by-client", "server minted %q from %q; the client's parser refuses it: %v", raw, sp.flag, err)
				continue
			}
			// user = "<unix expiry>:<peer id>", secret = base64(HMAC-SHA1(static secret, user)) (TURN REST)
			parts := strings.SplitN(t.Username, ":", 2)
			unix, perr := strconv.ParseInt(parts[0], 10, 64)
			if perr != nil || len(parts) != 2 || parts[1] != pc.id {
				bad("turn-user-differs", "client parsed user %q out of %q, the server minted it for peer %q", t.Username, raw, pc.id)
				continue
			}
			if d := time.Unix(unix, 0).Sub(t0.Add(credTTL)); d < -2*time.Second || d > 2*time.Second {
				bad("turn-expiry-differs", "credential expiry %v, intended %v", time.Unix(unix, 0).UTC(), t0.Add(credTTL).UTC())
			}
			mac := hmac.New(sha1.New, []byte(c.Secret))
			mac.Write([]byte(t.Username))
			if want := base64.StdEncoding.EncodeToString(mac.Sum(nil)); t.Password != want {
				bad("turn-secret-differs", "client parsed secret %q out of %q, TURN REST secret for user %q is %q", t.Password, raw, t.Username, want)
			}
			if t.Addr != sp.addr[i] || t.UseTLS != sp.tls[i] || t.UseTCP != sp.tcp[i] || t.ServerName != sp.sni[i] {
				bad("turn-endpoint-differs", "client understood %+v out of %q; configured %q means addr=%s tls=%v tcp=%v servername=%s", t, raw, sp.flag, sp.addr[i], sp.tls[i], sp.tcp[i], sp.sni[i])
			}
		}
	}
	// 4. the limits count what is alive: once this host and its receiver are gone (and any
	// per-minute budget of a small setting has refilled) the next host is served like the first
	recv.conn.Close()
	host.conn.Close()
	vrt.Sleep(lifeSettle)
	vrt.Sleep(61 * time.Second)
	id2, code2, _, err := clienthttp.CreateSession(context.Background(), serverURL, c.ClientMaxRx)
	if err != nil || id2 == "" || code2 == "" {
		bad("second-host-cannot-create-session", "after the first host and its receiver left, clienthttp.CreateSession: id=%q code=%q err=%v", id2, code2, err)
		return
	}
	if code2 == code {
		bad("second-host-cannot-create-session", "the second session got the join code of the first (%q)", code)
	}
	code = code2
	if h2 := connectAs(c.HostID, "sender", c.ClientMaxRx); h2 != nil {
		if r2 := connectAs(c.RecvID, "receiver", 0); r2 != nil {
			r2.conn.Close()
		}
		h2.conn.Close()
	}
	return
}

func c16Cases(thorough bool) []c16Case {
	var out []c16Case
	// A: full product of the nine limit/timeout flags x the host's --max-receivers {1, 4};
	// TURN spelling, peer ids and secrets rotate through their alphabets along the product.
	n := 1
	for range c16Dims {
		n *= 3
	}
	for idx := 0; idx < n; idx++ {
		for _, mr := range []int{1, 4} {
			var args []string
			k := idx
			for _, d := range c16Dims {
				v := d.values[k%3]
				k /= 3
				if v != "" {
					args = append(args, d.name, v)
				}
			}
			c := c16Case{Args: args, ClientMaxRx: mr, Turn: -1, HostID: c16PeerIDs[idx%len(c16PeerIDs)], RecvID: c16PeerIDs[(idx/3+1)%len(c16PeerIDs)]}
			if c.HostID == c.RecvID {
				c.RecvID = "bob"
			}
			if idx%2 == 1 {
				c.Turn = (idx / 2) % len(c16Turn)
				c.Secret = c16Secrets[(idx/7)%len(c16Secrets)]
				c.CredTTL = c16CredTTL[(idx/5)%len(c16CredTTL)]
				c.Args = append(c.Args, "--turn-server", c16Turn[c.Turn].flag, "--turn-static-auth-secret", c.Secret)
				if c.CredTTL != "" {
					c.Args = append(c.Args, "--turn-cred-ttl", c.CredTTL)
				}
			}
			out = append(out, c)
		}
	}
	// B: full product TURN spelling x peer id x secret x credential lifetime under default limits
	for ti := range c16Turn {
		for _, pid := range c16PeerIDs {
			for _, sec := range c16Secrets {
				for _, ttl := range c16CredTTL {
					c := c16Case{ClientMaxRx: 4, Turn: ti, Secret: sec, CredTTL: ttl, HostID: pid, RecvID: pid + "2"}
					c.Args = []string{"--turn-server", c16Turn[ti].flag, "--turn-static-auth-secret", sec}
					if ttl != "" {
						c.Args = append(c.Args, "--turn-cred-ttl", ttl)
					}
					out = append(out, c)
				}
			}
		}
	}
	// D: the burst sizes of the three rate limiters at {default, 2, 1, 0} (connects: {default,
	// 2}, because host and receiver connect back to back from one address): the first request of
	// each kind must pass whatever the burst size
	for _, cb := range []string{"", "2", "1", "0"} {
		for _, mb := range []string{"", "2", "1", "0"} {
			for _, wb := range []string{"", "2"} {
				var args []string
				if cb != "" {
					args = append(args, "--session-creates-burst", cb)
				}
				if mb != "" {
					args = append(args, "--ws-msgs-burst", mb)
				}
				if wb != "" {
					args = append(args, "--ws-connects-burst", wb)
				}
				out = append(out, c16Case{Args: args, ClientMaxRx: 4, Turn: -1, HostID: "alice", RecvID: "bob"})
			}
		}
	}
	// C: half-configured TURN (servers without secret, secret without servers) = issuing off
	out = append(out, c16Case{Args: []string{"--turn-server", "turn:relay.test:3478"}, ClientMaxRx: 4, Turn: -1, HostID: "alice", RecvID: "bob"})
	out = append(out, c16Case{Args: []string{"--turn-static-auth-secret", "s"}, ClientMaxRx: 4, Turn: -1, HostID: "alice", RecvID: "bob"})
	return out
}

func modeC16() {
	res.Rule = "bounded-exhaustive configuration enumeration on the real server in a box driven by the real client functions (clienthttp.CreateSession, app.buildWebSocketURL, wsclient.Dial/ReadLoop/Send, ice.parseTurnServer): full product of nine limit/timeout flags at {default, small, 0} x host --max-receivers {1,4} with TURN spelling / secret / peer ids rotating, plus the full product TURN spelling x peer id x secret x credential lifetime; non-trivial = distinct case"
	cases := c16Cases(vlib.F.Tier == "thorough")
	deadline := time.Now().Add(170 * time.Second)
	if vlib.F.Tier == "thorough" {
		deadline = time.Now().Add(28 * time.Minute)
	}
	var n int64
	for i, c := range cases {
		if !vlib.Mine(i) {
			continue
		}
		if time.Now().After(deadline) {
			res.NotExhaustive("time budget")
			break
		}
		c := c
		var viol [][2]string
		x := vrt.Run(boxCfg(), nil, func() { viol = c16Run(c) })
		n++
		res.Eval()
		res.Nontrivial(c.String())
		switch x.Outcome {
		case "ok":
		case "panic":
			res.Violate("panic", "box/c16", map[string]any{"panic": x.Detail}, fmt.Sprintf("[%s]: panic %s", c, x.Detail), c)
			continue
		case "deadlock", "stall":
			res.Violate("hang", "box/c16", map[string]any{"blocked": x.Blocked}, fmt.Sprintf("[%s]: %s %v", c, x.Outcome, x.Blocked), c)
			continue
		default:
			res.InfraError("[%s]: outcome %s %s", c, x.Outcome, x.Detail)
			continue
		}
		for _, v := range viol {
			res.Violate("mismatch", "box/c16", c16Sig(v[0], c), fmt.Sprintf("[%s]: %s", c, v[1]), c)
		}
		res.SampleSpread(int64(i), map[string]any{"case": c.String()})
	}
	res.Trans = n
	res.Validated = n
}

// c16Sig names the root cause: the class plus the configuration feature that is known to matter.
func c16Sig(class string, c c16Case) map[string]any {
	sig := map[string]any{"class": class}
	switch class {
	case "host-cannot-create-session", "expiry-differs":
		for i := 0; i+1 < len(c.Args); i += 2 {
			if c.Args[i] == "--session-timeout" {
				sig["session_timeout"] = c.Args[i+1]
			}
		}
	case "turn-url-refused-by-client", "turn-endpoint-differs":
		if c.Turn >= 0 {
			sig["turn_server"] = c16Turn[c.Turn].flag
		}
	}
	return sig
}
