//go:build verif

package app

import (
	"context"
	"io"
	"log/slog"
	"net"

	"github.com/sheerbytes/sheerbytes/internal/transfer"
	"github.com/sheerbytes/sheerbytes/internal/transferquic"
)

// Overlay-only access to the transport authentication for the C08 harness.

const (
	VerifRoleSender  = authRoleSender
	VerifRoleReceive = authRoleReceive
	VerifAuthMsgSize = authMsgSize
)

func VerifAuthenticate(ctx context.Context, conn transfer.Conn, joinCode string, role byte) error {
	return authenticateTransport(ctx, conn, joinCode, role)
}

// VerifBuildAuthMessage builds the message the real code would send on conn for (code, role) with
// the given nonce - what an attacker who is one end of that TLS session can compute for a code of
// its own choosing.
func VerifBuildAuthMessage(conn transfer.Conn, joinCode string, role byte, nonce []byte) ([]byte, error) {
	key, err := deriveAuthKey(conn, joinCode)
	if err != nil {
		return nil, err
	}
	mac := computeAuthMac(key, role, nonce)
	buf := make([]byte, authMsgSize)
	buf[0] = authVersion
	buf[1] = role
	copy(buf[2:], nonce)
	copy(buf[2+authNonceSize:], mac)
	return buf, nil
}

var verifLogger = slog.New(slog.NewTextHandler(io.Discard, nil))

// VerifDialExtra runs the sender's real extra-connection dialer.
func VerifDialExtra(ctx context.Context, joinCode string, remote *net.UDPAddr, extra int) (int, error) {
	s := &SnapshotSender{logger: verifLogger, joinCode: joinCode}
	conns, err := s.dialExtraConns(ctx, "peer", remote, nil, nil, extra)
	return len(conns), err
}

// VerifAcceptExtra runs the receiver's real extra-connection acceptor.
func VerifAcceptExtra(ctx context.Context, joinCode string, tr *transferquic.QUICTransport, extra int) (int, error) {
	r := &snapshotReceiver{logger: verifLogger, joinCode: joinCode}
	conns, err := r.acceptExtraConns(ctx, tr, extra)
	return len(conns), err
}
