//go:build verif

// C09 harness: connection racing. The real ice.Prober.ProbeAndDial dials candidate lists over
// the vquic network model (handshake completions on both sides are scheduler-visible events);
// the accepting side runs the receiver's real acceptOnce closure and then authenticates on the
// connection it committed to. All schedules within a delay bound are explored.
package main

import (
	"context"
	"crypto/tls"
	"fmt"
	"io"
	"log/slog"
	"os"
	"strings"
	"time"

	"github.com/sheerbytes/sheerbytes/internal/app"
	"github.com/sheerbytes/sheerbytes/internal/ice"
	"github.com/sheerbytes/sheerbytes/internal/transferquic"
	quic "github.com/sheerbytes/sheerbytes/internal/verif/venv/vquic"
	"github.com/sheerbytes/sheerbytes/internal/verif/vlib"
	vrt "github.com/sheerbytes/sheerbytes/internal/verif/vrt"
)

var res *vlib.Result
var logger = slog.New(slog.NewTextHandler(io.Discard, nil))

type Case struct {
	Cands    []string `json:"candidates"`
	Acceptor bool     `json:"acceptor"` // run the accepting side and authenticate
	// DelayMs: virtual milliseconds the handshake towards a candidate takes (slow paths), by
	// position in Cands; missing = immediate
	DelayMs []int `json:"delay_ms,omitempty"`
	// Cancel: the caller gives up at some moment (a low-priority thread cancels the context:
	// one deviation puts it at any scheduling point of the race)
	Cancel bool `json:"cancel,omitempty"`
}

func (c Case) String() string {
	cn := ""
	if c.Cancel {
		cn = " caller-cancels"
	}
	if len(c.DelayMs) > 0 {
		return fmt.Sprintf("cands=%v delays=%vms acceptor=%v%s", c.Cands, c.DelayMs, c.Acceptor, cn)
	}
	return fmt.Sprintf("cands=%v acceptor=%v%s", c.Cands, c.Acceptor, cn)
}

const listenAddr = "10.0.0.1:5000"

type outcome struct {
	conn       *quic.Conn
	dialErr    error
	wonUpdates int
	leaked     []string
	sAuth      error
	rAuth      error
	rRan       bool
	agreed     bool
	dials      int
	clientDone int
}

var last *outcome

func runCase(c Case) {
	o := &outcome{}
	last = o
	l := quic.RegisterListener(listenAddr)
	// every reachable candidate is another address of the same listener
	for _, a := range []string{"10.0.0.2:5000", "[fd00::1]:5000", "192.168.1.7:5000"} {
		quic.Net.Alias[a] = listenAddr
	}
	for i, ms := range c.DelayMs {
		if i < len(c.Cands) && ms > 0 {
			quic.Net.DialDelay[strings.TrimPrefix(c.Cands[i], "turn:")] = time.Duration(ms) * time.Millisecond
		}
	}
	p := ice.VerifNewProber(logger)
	var wg vrt.WaitGroup
	var rconnName string
	if c.Acceptor {
		wg.Add(1)
		vrt.GoNamed("R", "R", func() {
			defer wg.Done()
			ctx, cancel := vrt.WithTimeout(context.Background(), 20*time.Second)
			defer cancel()
			tc, err := app.VerifAcceptorCommit(ctx, transferquic.NewListener(l, logger), "CODE")
			o.rAuth = err
			o.rRan = true
			if tc != nil {
				rconnName = tc.RemoteAddr().String()
			}
		})
	}
	wg.Add(1)
	vrt.GoNamed("S", "S", func() {
		defer wg.Done()
		ctx, cancel := vrt.WithTimeout(context.Background(), 5*time.Second)
		defer cancel()
		if c.Cancel {
			vrt.GoLow("caller-cancel", "S", func() { cancel() })
		}
		conn, err := p.ProbeAndDial(ctx, c.Cands, &tls.Config{}, nil, func(u ice.ProbeUpdate) {
			if u.State == ice.ProbeStateWon {
				o.wonUpdates++
			}
		})
		o.conn, o.dialErr = conn, err
		if err == nil && c.Acceptor {
			tc, derr := transferquic.NewDialer(conn, logger).Dial(ctx, "peer")
			if derr == nil {
				o.sAuth = app.VerifAuthSender(context.Background(), tc, "CODE")
			} else {
				o.sAuth = derr
			}
		}
	})
	wg.Wait()
	vrt.Sleep(3 * time.Second) // quiescence: late completions, cancellations
	_ = rconnName
	for _, d := range quic.Net.Dials {
		o.dials++
		if d.Client == nil {
			continue
		}
		o.clientDone++
		if d.Client == o.conn {
			continue
		}
		if d.Client.Err() == nil {
			o.leaked = append(o.leaked, d.Addr)
		}
	}
}

func check(c Case, x *vrt.Exec) {
	o := last
	rp := map[string]any{"case": c, "choices": append([]int{}, x.Choices()...)}
	if x.Outcome != "ok" {
		kind := "hang"
		if x.Outcome == "panic" {
			kind = "panic"
		}
		res.Violate(kind, "c09/race", map[string]any{"outcome": x.Outcome, "detail": firstWords(x.Detail)}, fmt.Sprintf("%s: %s %s", c, x.Outcome, x.Detail), rp)
		return
	}
	reachable := 0
	for _, a := range c.Cands {
		if !strings.HasPrefix(a, "10.9.") {
			reachable++
		}
	}
	if len(o.leaked) > 0 {
		res.Violate("leak", "c09/race", map[string]any{"class": "established-connection-neither-returned-nor-closed", "returned": o.conn != nil},
			fmt.Sprintf("%s: ProbeAndDial returned (conn=%v err=%v) but %d other established connection(s) stay open on the dialing side: %v", c, o.conn != nil, o.dialErr, len(o.leaked), o.leaked), rp)
	}
	if o.conn != nil && o.conn.Err() != nil {
		res.Violate("mismatch", "c09/race", map[string]any{"class": "returned-connection-closed"}, fmt.Sprintf("%s: the connection ProbeAndDial returned is already closed (%v)", c, o.conn.Err()), rp)
	}
	if o.conn == nil && o.clientDone > 0 && o.dialErr != nil && !strings.Contains(o.dialErr.Error(), "context") {
		res.Violate("mismatch", "c09/race", map[string]any{"class": "failure-reported-although-a-dial-succeeded"},
			fmt.Sprintf("%s: ProbeAndDial reports %v although %d handshake(s) completed on the dialing side", c, o.dialErr, o.clientDone), rp)
	}
	if o.wonUpdates > 1 {
		res.Violate("mismatch", "c09/race", map[string]any{"class": "two-winners"}, fmt.Sprintf("%s: %d candidates were declared winner", c, o.wonUpdates), rp)
	}
	if c.Acceptor && o.conn != nil {
		if o.sAuth != nil || o.rAuth != nil {
			res.Violate("mismatch", "c09/race", map[string]any{"class": "peers-on-different-connections"},
				fmt.Sprintf("%s: the dialing side kept one connection but authentication failed - dialer: %v, acceptor: %v (the acceptor committed to a connection the dialer abandoned)", c, o.sAuth, o.rAuth), rp)
		}
	}
}

func firstWords(s string) string {
	if len(s) > 60 {
		return s[:60]
	}
	return s
}

func cfg() vrt.Config {
	c := vrt.DefaultConfig()
	c.LockPoints = false
	c.TimerFirst = false
	c.LowThreads = true // the caller's cancellation (Case.Cancel) is one deviation away everywhere
	return c
}

func main() {
	res = vlib.Parse()
	res.Part = "race"
	res.Rule = "candidate lists (1-3 addresses of the same listener, duplicates, an unreachable address, a relay-prefixed address) dialled by the real ProbeAndDial over the vquic network model; every order of the handshake completions on both sides, of the result hand-over and of the cancellation within the delay bound; with and without the accepting side (real acceptOnce closure + authentication); non-trivial = every execution; distinct by (case, trace)"
	if vlib.F.Replay != "" {
		var art struct {
			Violation struct {
				Replay struct {
					Case    Case  `json:"case"`
					Choices []int `json:"choices"`
				} `json:"replay"`
			} `json:"violation"`
		}
		if err := vlib.ReadJSON(vlib.F.Replay, &art); err != nil {
			res.InfraError("%v", err)
			res.Finish()
		}
		c := art.Violation.Replay.Case
		x, err := vrt.Replay(cfg(), art.Violation.Replay.Choices, func() { runCase(c) })
		if err != nil {
			res.InfraError("%v", err)
			res.Finish()
		}
		res.Eval()
		if x.PanicStack != "" {
			fmt.Fprintln(os.Stderr, x.PanicStack)
		}
		fmt.Fprintf(os.Stderr, "replay c09 %s: outcome=%s conn=%v err=%v won=%d sAuth=%v rAuth=%v\n", c, x.Outcome, last.conn != nil, last.dialErr, last.wonUpdates, last.sAuth, last.rAuth)
		for i, d := range quic.Net.Dials {
			fmt.Fprintf(os.Stderr, "  dial %d to %s: client=%v (err %v) server=%v returned=%v\n", i, d.Addr, d.Client != nil, func() error {
				if d.Client != nil {
					return d.Client.Err()
				}
				return nil
			}(), d.Server != nil, d.Client != nil && d.Client == last.conn)
		}
		check(c, x)
		res.Finish()
	}
	thorough := vlib.F.Tier == "thorough"
	bound := 3
	if thorough {
		bound = 4
	}
	a1, a2, a3, bad := listenAddr, "10.0.0.2:5000", "[fd00::1]:5000", "10.9.9.9:1"
	type listT struct {
		c      []string
		d      []int
		cancel bool
	}
	var lists []listT
	for _, c := range [][]string{{a1}, {a1, a2}, {a1, a2, a3}, {a1, a1}, {a1, bad}, {bad, a1, a2}, {bad}, {"turn:" + a1}, {a1, "turn:" + a2}, {bad, "turn:" + a1}, {"turn:" + a1, "turn:" + a2}, {bad, "turn:" + a1, "turn:" + a2}, {"not-an-address"}, {}} {
		lists = append(lists, listT{c: c})
	}
	// slow paths: a handshake that takes seconds of virtual time (against the 5 s deadline of the
	// caller, the library's handshake timeout and any budget between the direct and relay phase)
	lists = append(lists,
		listT{c: []string{a1, a2}, d: []int{3300, 0}}, listT{c: []string{a1, a2}, d: []int{1000, 1000}},
		listT{c: []string{a1, "turn:" + a2}, d: []int{3300, 900}}, listT{c: []string{a1, "turn:" + a2}, d: []int{4500, 100}},
		listT{c: []string{bad, a1, "turn:" + a2}, d: []int{0, 3300, 900}}, listT{c: []string{a1, "turn:" + a2}, d: []int{6000, 0}},
		listT{c: []string{"turn:" + a1, "turn:" + a2}, d: []int{2500, 0}})
	// the caller cancels at any moment of the race
	for _, c := range [][]string{{a1}, {a1, a2}, {bad, a1}, {"turn:" + a1}, {a1, "turn:" + a2}} {
		lists = append(lists, listT{c: c, cancel: true})
	}
	budget := 170 * time.Second
	if thorough {
		budget = 28 * time.Minute
	}
	deadline := time.Now().Add(budget)
	var execs, nodes, steps int64
	n := 0
	incomplete := 0
	for _, l := range lists {
		for _, acc := range []bool{false, true} {
			n++
			if !vlib.Mine(n) {
				continue
			}
			c := Case{Cands: l.c, Acceptor: acc, DelayMs: l.d, Cancel: l.cancel}
			e := &vrt.Explorer{Cfg: cfg(), Bound: bound, Deadline: deadline, Root: func() { runCase(c) }}
			e.Visit = func(x *vrt.Exec) bool {
				check(c, x)
				res.Nontrivial(fmt.Sprintf("%s|%x", c, x.Trace()))
				return true
			}
			e.Run()
			execs += e.Execs
			nodes += e.Nodes
			steps += e.Steps
			if !e.Complete {
				incomplete++
			}
			for _, d := range e.Divergence {
				res.InfraError("divergence: %s", d)
			}
			res.Sample(c.String())
		}
	}
	res.EvalN(execs)
	res.States = nodes
	res.Trans = steps
	res.Validated = execs
	res.Extra["deviation_bound"] = fmt.Sprint(bound)
	if incomplete > 0 {
		res.NotExhaustive(fmt.Sprintf("%d explorations hit the time budget", incomplete))
	}
	res.Finish()
}
