//go:build verif

package main

import (
	"bytes"
	"fmt"
	"os"
	"path/filepath"
	"strings"
	"time"

	"github.com/sheerbytes/sheerbytes/internal/transfer"
	"github.com/sheerbytes/sheerbytes/internal/verif/vlib"
	vrt "github.com/sheerbytes/sheerbytes/internal/verif/vrt"
	"github.com/sheerbytes/sheerbytes/pkg/manifest"
)

// ---- C05: resume metadata never claims a chunk that is not safely in the file ----
//
// Only one thread runs at a time, so the disk content at a file-system point is exactly what a
// process kill there would leave behind. The invariant is therefore evaluated in passing at every
// file-system point of the receiver group (writes are split, so torn states are points too).

type metaTrack struct {
	p        *Prepared
	base     string
	last     map[string][]byte // file id -> last loadable bitmap
	viol     []string
	violCls  []string
	points   int
	loadable int
	byID     map[string]manifest.FileItem
	// preRun: bytes of every metadata file as they were before the receiver started
	preRun map[string][]byte
}

func newMetaTrack(p *Prepared, outDir string) *metaTrack {
	t := &metaTrack{p: p, base: filepath.Join(outDir, p.OutBase), last: map[string][]byte{}, byID: map[string]manifest.FileItem{}}
	for _, it := range p.M.Items {
		if !it.IsDir {
			t.byID[it.ID] = it
		}
	}
	t.preRun = map[string][]byte{}
	for _, dir := range t.metaDirs() {
		if es, err := os.ReadDir(dir); err == nil {
			for _, e := range es {
				b, _ := os.ReadFile(filepath.Join(dir, e.Name()))
				t.preRun[filepath.Join(dir, e.Name())] = b
			}
		}
	}
	return t
}

// metaDirs: where the receiver looks for resume metadata - its own directory and, in the flat
// mode, the one a run with a root directory would have used (the loader's fallback).
func (t *metaTrack) metaDirs() []string {
	dirs := []string{filepath.Join(t.base, ".thruflux_resumedata")}
	if t.p.Case.NoRootDir && t.p.M.Root != "" {
		dirs = append(dirs, filepath.Join(t.base, t.p.M.Root, ".thruflux_resumedata"))
	}
	return dirs
}

func (t *metaTrack) violate(cls, msg string) {
	for _, c := range t.violCls {
		if c == cls {
			return
		}
	}
	t.violCls = append(t.violCls, cls)
	t.viol = append(t.viol, msg)
}

// check evaluates the invariant on the current disk content.
func (t *metaTrack) check(where string) {
	t.points++
	seen := map[string]bool{}
	for _, dir := range t.metaDirs() {
		es, err := os.ReadDir(dir)
		if err != nil {
			continue
		}
		for _, e := range es {
			if !strings.HasSuffix(e.Name(), ".sbxmap") {
				continue // *.tmp and anything else is ignored by the loader too
			}
			sc, err := transfer.LoadSidecar(filepath.Join(dir, e.Name()))
			if err != nil {
				continue // unreadable => ignored
			}
			it, ok := t.byID[sc.FileID]
			if !ok || sc.FileSize != it.Size || sc.ChunkSize == 0 {
				continue // metadata of another file
			}
			// Metadata written for another chunk size (an earlier run with other options) is
			// still metadata the loader accepts for this file: its claims are judged with its own
			// chunk size. Only the current identity is tracked for regression / loss, because the
			// receiver legitimately replaces a version written for another chunk size.
			// (and only in the receiver's own directory: what lies in the fallback directory is
			// judged for its claims, not tracked as "the" version)
			current := sc.ChunkSize == t.p.Case.Chunk && dir == t.metaDirs()[0]
			t.loadable++
			bm := sc.VerifBitmap()
			if vlib.F.Replay != "" {
				fmt.Fprintf(os.Stderr, "  c05 @%s: metadata of %s chunk=%d bitmap=%x\n", where, it.RelPath, sc.ChunkSize, bm)
			}
			want := t.p.Files[it.RelPath]
			got, gerr := os.ReadFile(filepath.Join(t.base, filepath.FromSlash(it.RelPath)))
			if (gerr != nil || int64(len(got)) != it.Size) && t.preRun[filepath.Join(dir, e.Name())] != nil {
				// The user removed or shortened the output file after the earlier run and this
				// receiver has not touched either file yet: not a state the receiver produced. It
				// becomes the receiver's as soon as it rewrites the metadata or brings the output
				// file (back) to its full length, because from then on a later run would adopt it.
				if cur, _ := os.ReadFile(filepath.Join(dir, e.Name())); bytes.Equal(cur, t.preRun[filepath.Join(dir, e.Name())]) {
					continue
				}
			}
			if current {
				seen[sc.FileID] = true
			}
			chunk := int64(sc.ChunkSize)
			for i := int64(0); i*chunk < it.Size; i++ {
				if int(i/8) >= len(bm) || bm[i/8]&(1<<uint(i%8)) == 0 {
					continue
				}
				lo, hi := i*chunk, (i+1)*chunk
				if hi > it.Size {
					hi = it.Size
				}
				if int64(len(got)) < hi || !bytes.Equal(got[lo:hi], want[lo:hi]) {
					t.violate("claims-unwritten-chunk", fmt.Sprintf("at %s: metadata of %s marks chunk %d complete but the output file does not hold its bytes (file length %d)", where, it.RelPath, i, len(got)))
				}
			}
			if !current {
				continue
			}
			if prev, ok := t.last[sc.FileID]; ok {
				for j := range prev {
					if j >= len(bm) || prev[j]&^bm[j] != 0 {
						t.violate("metadata-regressed", fmt.Sprintf("at %s: metadata of %s lost bits it had before (%x -> %x)", where, it.RelPath, prev, bm))
					}
				}
			}
			t.last[sc.FileID] = bm
		}
	}
	for id := range t.last {
		if !seen[id] {
			// a readable version existed before; now there is none
			t.violate("metadata-lost", fmt.Sprintf("at %s: a readable metadata version of %s existed earlier, now none is readable (an interrupted update destroyed the previous version)", where, t.byID[id].RelPath))
		}
	}
}

var c05track *metaTrack

// FsFault makes the N-th file-system operation of kind Op (counted over the receiver's
// operations of that kind) fail at Phase with an I/O error (disk full / quota / I/O error).
type FsFault struct {
	Op    string `json:"op"`
	N     int    `json:"n"`
	Phase string `json:"phase"`
}

var c05counts map[string]int

func c05Env(p *Prepared, withFlusher bool, fault *FsFault) *Env {
	env := envFor("c05", p, "")
	prev := env.BeforeRun
	env.BeforeRun = func(p *Prepared, outDir string) {
		if prev != nil {
			prev(p, outDir)
		}
		c05track = newMetaTrack(p, outDir)
		tr := c05track
		if p.Case.Pre != "" {
			tr.check("start")
		}
		c05counts = map[string]int{}
		vrt.FsHook = func(op, path, phase string) error {
			if vrt.CurrentGroup() != "R" && !strings.HasPrefix(path, outDir) {
				return nil
			}
			tr.check(op + ":" + phase + ":" + filepath.Base(path))
			if phase == "pre" {
				c05counts[op]++
			}
			if fault != nil && fault.Op == op && fault.Phase == phase && c05counts[op] == fault.N {
				return fmt.Errorf("%s %s: no space left on device (injected)", op, filepath.Base(path))
			}
			return nil
		}
	}
	if withFlusher {
		env.Extra = func(_, _ transfer.Conn) {
			// the application flushes all metadata on abort (SIGINT): it may land anywhere
			// a low-priority thread: one deviation puts it at any scheduling point of the run
			vrt.GoLow("flushall", "R", func() {
				transfer.FlushAllFlushers()
			})
		}
	}
	return env
}

type c05Extra struct {
	Flusher bool     `json:"flusher"`
	Fault   *FsFault `json:"fault,omitempty"`
}

func checkC05(p *Prepared, x *vrt.Exec, o *Outcome, flusher bool, fault *FsFault) {
	tr := c05track
	if tr == nil {
		return
	}
	if vlib.F.Replay != "" && o != nil {
		fmt.Fprintf(os.Stderr, "  c05 outcome=%s send=%v recv=%v diff=%q\n", x.Outcome, o.SendErr, o.RecvErr, o.TreeDiff)
	}
	for i, msg := range tr.viol {
		res.Violate("invariant", "xfer/c05", map[string]any{"class": tr.violCls[i]},
			fmt.Sprintf("%s fault=%v: %s", p.Case, fault, msg), replayT{Mode: "c05", Case: p.Case, Choices: append([]int{}, x.Choices()...), Extra: vlib.JSON(c05Extra{flusher, fault})}.withCfg(x))
	}
}

func c05Cfg() vrt.Config {
	cfg := baseCfg()
	cfg.LowThreads = true // the flush-all thread stands for SIGINT: one deviation away everywhere
	return cfg
}

func modeC05() {
	res.Rule = "interrupted-run workloads (2 files of 3 and 2 chunks; pre-existing partial state; latency so that the 1 s flush ticker fires mid-transfer; an extra FlushAllFlushers thread) explored within the deviation bound; the invariant is evaluated at every file-system point of the receiver (split writes included); non-trivial = execution with at least one loadable metadata version observed; distinct by trace"
	thorough := vlib.F.Tier == "thorough"
	st := newStats()
	budget := 170 * time.Second
	if thorough {
		budget = 28 * time.Minute
	}
	deadline := time.Now().Add(budget)
	tree := []Entry{{Path: "a", Size: 12}, {Path: "b", Size: 7}}
	var cases []Case
	for _, s := range []int{1, 2} {
		for _, pre := range []string{"", "partial", "holes"} {
			for _, lat := range []int{0, 200} {
				cases = append(cases, Case{Tree: tree, Chunk: 4, Streams: s, Conns: 1, Resume: true, NoRootDir: true, Pre: pre, LatencyMs: lat})
			}
		}
		// metadata left by an earlier run with another chunk size
		for _, pre := range []string{"holes@2", "partial@8", "holes@3"} {
			cases = append(cases, Case{Tree: tree, Chunk: 4, Streams: s, Conns: 1, Resume: true, NoRootDir: true, Pre: pre})
		}
		// the user deleted or shortened the output files after the interrupted run; the hidden
		// metadata stayed behind
		pres := []string{"partial!nodata", "holes!short", "partial!nodata!rootedmeta"}
		if thorough {
			pres = append(pres, "complete!nodata", "partial!rootedmeta")
		}
		for _, pre := range pres {
			if s == 2 && pre != "partial!nodata" {
				continue
			}
			cases = append(cases, Case{Tree: tree, Chunk: 4, Streams: s, Conns: 1, Resume: true, NoRootDir: true, Pre: pre})
		}
	}
	cases = append(cases, Case{Tree: tree, Chunk: 4, Streams: 2, Conns: 1, Resume: true, NoRootDir: false})
	for _, pre := range []string{"partial@8", "partial@2", "holes@8"} {
		cases = append(cases, Case{Tree: []Entry{{Path: "a", Size: 16}}, Chunk: 4, Streams: 1, Conns: 1, Resume: true, NoRootDir: true, Pre: pre})
		cases = append(cases, Case{Tree: []Entry{{Path: "a", Size: 32}}, Chunk: 4, Streams: 2, Conns: 1, Resume: true, NoRootDir: true, Pre: pre})
	}
	bound := 1
	if thorough {
		bound = 2
	}
	var points, loadable int64
	n := 0
	for _, c := range cases {
		for _, fl := range []bool{false, true} {
			p, err := prepare(c)
			if err != nil {
				res.InfraError("prepare: %v", err)
				continue
			}
			n++
			// baseline: how many receiver operations of each kind does the default run perform?
			env0 := c05Env(p, fl, nil)
			vrt.Run(c05Cfg(), nil, func() { runTransfer(p, env0) })
			base := map[string]int{}
			for k, v := range c05counts {
				base[k] = v
			}
			faults := []*FsFault{nil}
			for k := 1; k <= base["writeat"]; k++ {
				faults = append(faults, &FsFault{"writeat", k, "pre"}, &FsFault{"writeat", k, "mid-half"})
			}
			for k := 1; k <= base["writefile"]; k++ {
				faults = append(faults, &FsFault{"writefile", k, "pre"}, &FsFault{"writefile", k, "mid-truncated"}, &FsFault{"writefile", k, "mid-half"})
			}
			for k := 1; k <= base["rename"]; k++ {
				faults = append(faults, &FsFault{"rename", k, "pre"})
			}
			for _, ft := range faults {
				ft := ft
				env := c05Env(p, fl, ft)
				b := bound
				if ft != nil && !thorough {
					b = 0
					if ft.Op == "writeat" {
						b = 1
					}
				}
				if thorough && (c.Streams != 2 || c.LatencyMs != 0 || c.Pre == "holes" || ft != nil) {
					b = 1
				}
				exploreSharded(st, p, env, b, deadline, c05Cfg(), true, func(x *vrt.Exec, o *Outcome) {
					checkC05(p, x, o, fl, ft)
					points += int64(c05track.points)
					loadable += int64(c05track.loadable)
					if c05track.loadable > 0 {
						res.Nontrivial(fmt.Sprintf("%s|%v|%v|%x", keyOf(c), fl, ft, x.Trace()))
					}
				})
			}
			res.SampleSpread(int64(n), map[string]any{"case": c.String(), "flush_all_thread": fl})
			os.RemoveAll(p.SrcRoot)
		}
	}
	vrt.FsHook = nil
	st.cases = n
	res.Extra["invariant_evaluations"] = float64(points)
	res.Extra["loadable_metadata_versions_checked"] = float64(loadable)
	res.Extra["deviation_bound"] = fmt.Sprint(bound)
	st.finish()
}
