//go:build verif

package transfer

// Exports for the C19 harness (layered in through -overlay; never part of a normal build).

func VerifChunkTotal(fileSize int64, chunkSize uint32) uint32 { return chunkTotal(fileSize, chunkSize) }
func VerifChunkSizeForIndex(fileSize int64, chunkSize uint32, idx uint32) uint32 {
	return chunkSizeForIndex(fileSize, chunkSize, idx)
}

const VerifMaxFileSize = int64(maxFileSize)
