//go:build verif

// C13 harness: manifest = what will be read, once, deterministically (engine E3).
// Enumerates all small trees x path lists and compares the real scanner + the real
// sender-side resolver with an independent walk.
package main

import (
	"fmt"
	"os"
	"path/filepath"
	"reflect"
	"sort"
	"strings"

	"github.com/sheerbytes/sheerbytes/internal/app"
	"github.com/sheerbytes/sheerbytes/internal/verif/vlib"
	"github.com/sheerbytes/sheerbytes/pkg/manifest"
)

type entry struct {
	Path string `json:"path"` // relative to the tree root, '/' separated
	Kind string `json:"kind"` // f0 f3 dir symF symD symX
}

type caseT struct {
	Tree  []entry  `json:"tree"`
	Paths []string `json:"paths"` // as spelled (relative to cwd = tree root, or absolute with $ROOT)
	Mode  string   `json:"mode"`  // ScanPaths | Scan
}

var res *vlib.Result
var base string // scratch
var treeSeq int

func build(root string, tree []entry) error {
	if err := os.MkdirAll(root, 0755); err != nil {
		return err
	}
	// targets for symlinks live outside the shared tree so that they are not scanned themselves
	tdir := root + ".targets"
	os.MkdirAll(filepath.Join(tdir, "tdir"), 0755)
	os.WriteFile(filepath.Join(tdir, "tfile"), []byte("0123456789"), 0644) // 10 bytes; link text is longer/shorter than 10
	os.WriteFile(filepath.Join(tdir, "tdir", "inner"), []byte("xy"), 0644)
	for _, e := range tree {
		p := filepath.Join(root, filepath.FromSlash(e.Path))
		switch e.Kind {
		case "f0":
			if err := os.WriteFile(p, nil, 0644); err != nil {
				return err
			}
		case "f3":
			if err := os.WriteFile(p, []byte("abc"), 0644); err != nil {
				return err
			}
		case "dir":
			if err := os.Mkdir(p, 0755); err != nil {
				return err
			}
		case "symF":
			if err := os.Symlink(filepath.Join(tdir, "tfile"), p); err != nil {
				return err
			}
		case "symD":
			if err := os.Symlink(filepath.Join(tdir, "tdir"), p); err != nil {
				return err
			}
		case "symX":
			if err := os.Symlink(filepath.Join(tdir, "nothing"), p); err != nil {
				return err
			}
		}
	}
	return nil
}

type want struct {
	abs   string
	isDir bool
	kind  string
}

// walk is the independent oracle: the path as the user means it (os.Stat, i.e. what it points to),
// then everything beneath it without following nested links.
func walk(p string) ([]want, error) {
	st, err := os.Stat(p)
	if err != nil {
		return nil, err
	}
	real, err := filepath.EvalSymlinks(p)
	if err != nil {
		return nil, err
	}
	abs, _ := filepath.Abs(p)
	lst, _ := os.Lstat(strings.TrimRight(abs, "/"))
	rootKind := "regular"
	if st.IsDir() {
		rootKind = "dir"
	}
	if lst != nil && lst.Mode()&os.ModeSymlink != 0 {
		rootKind = "symlink-root-" + rootKind
	}
	via := ""
	if strings.HasPrefix(rootKind, "symlink-root") {
		via = "beneath-symlinked-root/"
	}
	out := []want{{abs: filepath.Clean(abs), isDir: st.IsDir(), kind: rootKind}}
	if !st.IsDir() {
		return out, nil
	}
	var rec func(dirReal, dirShown string) error
	rec = func(dirReal, dirShown string) error {
		es, err := os.ReadDir(dirReal)
		if err != nil {
			return err
		}
		for _, e := range es {
			li, err := os.Lstat(filepath.Join(dirReal, e.Name()))
			if err != nil {
				return err
			}
			shown := filepath.Join(dirShown, e.Name())
			switch {
			case li.Mode().IsRegular():
				out = append(out, want{abs: shown, kind: via + "regular"})
			case li.IsDir():
				out = append(out, want{abs: shown, isDir: true, kind: via + "dir"})
				if err := rec(filepath.Join(dirReal, e.Name()), shown); err != nil {
					return err
				}
			}
		}
		return nil
	}
	if err := rec(real, filepath.Clean(abs)); err != nil {
		return nil, err
	}
	return out, nil
}

func lkind(p string) string {
	li, err := os.Lstat(p)
	if err != nil {
		return "missing"
	}
	switch {
	case li.Mode()&os.ModeSymlink != 0:
		st, err := os.Stat(p)
		if err != nil {
			return "symlink-dangling"
		}
		if st.IsDir() {
			return "symlink-dir"
		}
		return "symlink-file"
	case li.IsDir():
		return "dir"
	case li.Mode().IsRegular():
		return "regular"
	}
	return "special"
}

func treeHasBackslash(c caseT) bool {
	for _, e := range c.Tree {
		if strings.Contains(e.Path, "\\") {
			return true
		}
	}
	return false
}

func violate(c caseT, class, kind, what string) {
	res.Violate("mismatch", "c13/scan", map[string]any{"class": class, "kind": kind, "mode": c.Mode}, what+" | case: "+fmt.Sprintf("%+v", c), c)
}

func checkManifest(c caseT, m manifest.Manifest, resolve func(string) string, absPaths []string, isRoot func(rel string) bool) {
	// sorted, distinct
	dup := false
	for i := 1; i < len(m.Items); i++ {
		a, b := m.Items[i-1].RelPath, m.Items[i].RelPath
		if a == b {
			dup = true
			// Which kind of collision? If one of the given paths is itself named like the colliding
			// (prefixed) name, the tool's "<n>_" disambiguation prefix collided with a real name;
			// otherwise two given paths were handed the same ordinal.
			first := strings.SplitN(a, "/", 2)[0]
			cls := "duplicate-relpath/same-ordinal"
			for _, ap := range absPaths {
				if filepath.Base(ap) == first {
					cls = "duplicate-relpath/prefix-lookalike"
				}
			}
			violate(c, cls, "any", fmt.Sprintf("rel_path %q listed twice", a))
		} else if a > b {
			violate(c, "unsorted", "any", fmt.Sprintf("items not sorted: %q before %q", a, b))
		}
	}
	files, dirs := 0, 0
	var total int64
	for _, it := range m.Items {
		// a backslash is an ordinary character of a file name here, not a separator: only a
		// backslash that no name of the tree contains would show that separators were converted
		if (strings.Contains(it.RelPath, "\\") && !treeHasBackslash(c)) || strings.HasPrefix(it.RelPath, "/") || it.RelPath == "" {
			violate(c, "relpath-shape", "any", fmt.Sprintf("rel_path %q", it.RelPath))
		}
		if it.IsDir {
			dirs++
		} else {
			files++
			total += it.Size
		}
	}
	if files != m.FileCount || dirs != m.FolderCount || total != m.TotalBytes {
		violate(c, "counts", "any", fmt.Sprintf("counts: header files=%d dirs=%d bytes=%d, items files=%d dirs=%d bytes=%d", m.FileCount, m.FolderCount, m.TotalBytes, files, dirs, total))
	}
	if dup {
		return // everything below would only restate the same defect (two sources behind one name)
	}
	// expected multiset
	type key struct {
		abs   string
		isDir bool
	}
	exp := map[key]int{}
	expKind := map[key]string{}
	for _, p := range absPaths {
		ws, err := walk(p)
		if err != nil {
			res.InfraError("oracle walk %s: %v", p, err)
			return
		}
		for _, w := range ws {
			k := key{w.abs, w.isDir}
			exp[k]++
			expKind[k] = w.kind
		}
	}
	got := map[key]int{}
	for _, it := range m.Items {
		r := resolve(it.RelPath)
		if r == "" {
			violate(c, "resolve", lkindOfItem(it), fmt.Sprintf("item %q does not resolve to a source path", it.RelPath))
			continue
		}
		r = filepath.Clean(r)
		lk := lkind(r)
		if !it.IsDir {
			// size = bytes the sender will read
			if lk == "special" {
				violate(c, "special-listed", lk, fmt.Sprintf("special file listed as %q", it.RelPath))
			} else {
				data, err := os.ReadFile(r)
				if err != nil {
					violate(c, "unreadable-listed", lk, fmt.Sprintf("item %q (size %d) resolves to %s which cannot be read as a file: %v", it.RelPath, it.Size, lk, err))
				} else if int64(len(data)) != it.Size {
					violate(c, "size-mismatch", lk, fmt.Sprintf("item %q lists size %d but the sender will read %d bytes (%s)", it.RelPath, it.Size, len(data), lk))
				}
			}
		}
		nested := !isRoot(it.RelPath)
		if nested && (strings.HasPrefix(lk, "symlink") || lk == "special") {
			// a link met while walking is an "entry that is not a plain file or directory": it is not
			// part of the exactly-once clause, only of the size clause above
			continue
		}
		got[key{r, it.IsDir}]++
	}
	for k, n := range exp {
		if got[k] != n {
			cls := "missing"
			if got[k] > n {
				cls = "extra"
			}
			violate(c, cls, expKind[k], fmt.Sprintf("%s (dir=%v) expected %d time(s) in the manifest, resolves %d time(s)", rel(k.abs), k.isDir, n, got[k]))
		}
	}
	for k, n := range got {
		if _, ok := exp[k]; !ok {
			violate(c, "extra", lkind(k.abs), fmt.Sprintf("%s (dir=%v) appears %d time(s) but is not beneath any given path", rel(k.abs), k.isDir, n))
		}
	}
}

func isGiven(r string, abs []string) bool {
	for _, a := range abs {
		if filepath.Clean(a) == r {
			return true
		}
	}
	return false
}

func lkindOfItem(it manifest.FileItem) string {
	if it.IsDir {
		return "dir"
	}
	return "file"
}

func rel(p string) string {
	if r, err := filepath.Rel(base, p); err == nil {
		return r
	}
	return p
}

func runCase(c caseT) {
	treeSeq++
	root := filepath.Join(base, fmt.Sprintf("t%d", treeSeq%4), "root")
	os.RemoveAll(filepath.Dir(root))
	if err := build(root, c.Tree); err != nil {
		res.InfraError("build tree: %v", err)
		return
	}
	runPaths(c, root)
}

func spell(root, s string) string { return strings.ReplaceAll(s, "$ROOT", root) }

func runPaths(c caseT, root string) {
	if err := os.Chdir(root); err != nil {
		res.InfraError("chdir: %v", err)
		return
	}
	res.Eval()
	paths := make([]string, len(c.Paths))
	abs := make([]string, len(c.Paths))
	for i, p := range c.Paths {
		paths[i] = spell(root, p)
		a, _ := filepath.Abs(paths[i])
		abs[i] = a
	}
	switch c.Mode {
	case "ScanPaths":
		m, err := manifest.ScanPaths(paths)
		if err != nil {
			res.Extra["scan_refused"] = res.Extra["scan_refused"].(float64) + 1
			return // the sender aborts: no manifest is offered
		}
		resolve, err := app.VerifBuildPathResolver(paths)
		if err != nil {
			res.Extra["scan_refused"] = res.Extra["scan_refused"].(float64) + 1
			return
		}
		if len(c.Tree) > 1 || len(c.Paths) > 1 {
			res.Nontrivial(fmt.Sprintf("%v|%v", c.Tree, c.Paths))
		}
		checkManifest(c, m, resolve, abs, func(r string) bool { return !strings.Contains(r, "/") })
		m2, err2 := manifest.ScanPaths(paths)
		if err2 != nil || !reflect.DeepEqual(m, m2) {
			violate(c, "nondeterministic", "any", "second scan of the unchanged paths differs")
		}
	case "Scan":
		m, err := manifest.Scan(paths[0])
		if err != nil {
			res.Extra["scan_refused"] = res.Extra["scan_refused"].(float64) + 1
			return
		}
		res.Nontrivial(fmt.Sprintf("S|%v|%v", c.Tree, c.Paths))
		st, _ := os.Stat(paths[0])
		var resolve func(string) string
		if st != nil && st.IsDir() {
			resolve = func(r string) string { return filepath.Join(abs[0], filepath.FromSlash(r)) }
			// Scan does not list the root directory itself: add it virtually
			m.Items = append([]manifest.FileItem{}, m.Items...)
			mm := m
			mm.Items = append([]manifest.FileItem{{RelPath: ".", IsDir: true}}, m.Items...)
			sort.SliceStable(mm.Items, func(i, j int) bool { return mm.Items[i].RelPath < mm.Items[j].RelPath })
			mm.FolderCount++
			checkManifest(c, mm, resolve, abs, func(r string) bool { return r == "." })
		} else {
			resolve = func(r string) string { return abs[0] }
			checkManifest(c, m, resolve, abs, func(r string) bool { return true })
		}
		m2, err2 := manifest.Scan(paths[0])
		if err2 != nil || !reflect.DeepEqual(m, m2) {
			violate(c, "nondeterministic", "any", "second scan of the unchanged path differs")
		}
	}
}

// ---- enumeration ----

func genTrees(maxEntries int, top, child, leafKinds []string, emit func([]entry)) {
	// a tree is a sorted list of entries; directories may get children (nesting <= 2)
	var rec func(cur []entry, startTop int, n int)
	rec = func(cur []entry, startTop int, n int) {
		emit(append([]entry{}, cur...))
		if n == 0 {
			return
		}
		for ti := startTop; ti < len(top); ti++ {
			for _, k := range leafKinds {
				rec(append(cur, entry{top[ti], k}), ti+1, n-1)
			}
			// directory with 0..n-1 children
			var recChild func(cur2 []entry, startC int, left int)
			recChild = func(cur2 []entry, startC int, left int) {
				rec(cur2, ti+1, left)
				if left == 0 {
					return
				}
				for ci := startC; ci < len(child); ci++ {
					for _, k := range append(append([]string{}, leafKinds...), "dir") {
						recChild(append(append([]entry{}, cur2...), entry{top[ti] + "/" + child[ci], k}), ci+1, left-1)
					}
				}
			}
			recChild(append(append([]entry{}, cur...), entry{top[ti], "dir"}), 0, n-1)
		}
	}
	rec(nil, 0, maxEntries)
}

func main() {
	res = vlib.Parse()
	res.Part = "scan"
	res.Extra["scan_refused"] = float64(0)
	res.Rule = "all trees up to N entries over a name/kind alphabet x all path lists up to L over the tree's nodes in several spellings; ScanPaths+resolver and Scan; non-trivial when tree or list has more than one element; distinct by (tree, list)"
	base = os.Getenv("VERIF_SCRATCH")
	if base == "" {
		base, _ = os.MkdirTemp("/dev/shm", "c13")
		defer os.RemoveAll(base)
	}
	if vlib.F.Replay != "" {
		var art struct {
			Violation struct {
				Replay caseT `json:"replay"`
			} `json:"violation"`
		}
		if err := vlib.ReadJSON(vlib.F.Replay, &art); err != nil {
			res.InfraError("replay: %v", err)
		} else {
			runCase(art.Violation.Replay)
		}
		res.Finish()
	}
	thorough := vlib.F.Tier == "thorough"
	n := 0
	type fam struct {
		maxEntries, maxPaths int
		top, child, kinds    []string
		spellings            []string
	}
	fams := []fam{
		// A: links and odd names, small
		{3, 2, []string{"a", "b", "1_a", "ä b"}, []string{"a", "1_a"}, []string{"f0", "f3", "symF", "symD", "symX"}, []string{"%s", "./%s", "%s/", "%s/.", "$ROOT/%s"}},
		// B: disambiguation prefixes: plain files/dirs only, longer lists
		{4, 3, []string{"a", "b", "1_a", "2_a"}, []string{"a", "1_a", "b"}, []string{"f3"}, []string{"%s", "%s/."}},
		// C: legal names that merely look like path tricks (dots, leading dots, backslash)
		{3, 2, []string{"a..b", "..a", "a..", "a\\b"}, []string{"x..y", "..h", "a"}, []string{"f0", "f3"}, []string{"%s", "./%s", "$ROOT/%s"}},
		// D: siblings whose names extend a directory's name with a byte below / above the
		// separator ('-' '.' ' ' sort before "d/", '0' after): the order in which a walk meets
		// entries is then not the byte order of their relative paths
		{4, 2, []string{"d", "d x", "d-x", "d.x", "d0"}, []string{"a", "z"}, []string{"f3"}, []string{"%s", "$ROOT/%s"}},
	}
	if thorough {
		fams = []fam{
			{4, 2, []string{"a", "b", "1_a", "2_a", "ä b", ".h"}, []string{"a", "1_a", "b"}, []string{"f0", "f3", "symF", "symD", "symX"}, []string{"%s", "./%s", "%s/", "%s/.", "b/../%s", "$ROOT/%s"}},
			{5, 3, []string{"a", "b", "1_a", "2_a"}, []string{"a", "1_a", "2_a", "b"}, []string{"f3", "f0"}, []string{"%s", "%s/."}},
			{4, 2, []string{"a..b", "..a", "a..", "a\\b", "..."}, []string{"x..y", "..h", "a"}, []string{"f0", "f3", "symF"}, []string{"%s", "./%s", "%s/.", "$ROOT/%s"}},
			{5, 2, []string{"d", "d x", "d-x", "d.x", "d0"}, []string{"a", "z", "a.b"}, []string{"f3", "f0"}, []string{"%s", "%s/.", "$ROOT/%s"}},
		}
	}
	for fi, f := range fams {
		genTrees(f.maxEntries, f.top, f.child, f.kinds, func(tree []entry) {
			n++
			if !vlib.Mine(n) {
				return
			}
			treeSeq++
			root := filepath.Join(base, fmt.Sprintf("t%d", treeSeq%4), "root")
			os.RemoveAll(filepath.Dir(root))
			if err := build(root, tree); err != nil {
				res.InfraError("build tree %v: %v", tree, err)
				return
			}
			nodes := []string{"."}
			for _, e := range tree {
				nodes = append(nodes, e.Path)
			}
			var sp []string
			for _, nd := range nodes {
				for _, s := range f.spellings {
					if nd == "." && s != "%s" && s != "$ROOT/%s" {
						continue
					}
					if strings.HasSuffix(s, "/.") || strings.HasSuffix(s, "/") && s != "$ROOT/%s" {
						if st, err := os.Stat(filepath.Join(root, nd)); err != nil || !st.IsDir() {
							continue
						}
					}
					if strings.HasPrefix(s, "b/../") {
						if st, err := os.Stat(filepath.Join(root, "b")); err != nil || !st.IsDir() {
							continue
						}
					}
					sp = append(sp, fmt.Sprintf(s, nd))
				}
			}
			var lists func(cur []string, left int)
			lists = func(cur []string, left int) {
				if len(cur) > 0 {
					c := caseT{Tree: tree, Paths: append([]string{}, cur...), Mode: "ScanPaths"}
					runPaths(c, root)
					res.SampleSpread(res.Evals, c)
				}
				if left == 0 {
					return
				}
				for _, s := range sp {
					lists(append(cur, s), left-1)
				}
			}
			lists(nil, f.maxPaths)
			if fi == 0 {
				for _, nd := range nodes {
					runPaths(caseT{Tree: tree, Paths: []string{nd}, Mode: "Scan"}, root)
				}
			}
		})
	}
	os.Chdir("/")
	res.Finish()
}
