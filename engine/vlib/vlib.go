// Package vlib is the small reporting library shared by every harness binary.
// It is layered into the repository module as
// github.com/sheerbytes/sheerbytes/internal/verif/vlib through `go build -overlay`.
package vlib

import (
	"crypto/sha256"
	"encoding/hex"
	"encoding/json"
	"flag"
	"fmt"
	"os"
	"sort"
	"strings"
	"sync"
	"time"
)

// Violation is one property violation with a kind-specific signature (matched
// against /verif/known_findings.json by vcheck) and a replayable artefact.
type Violation struct {
	Kind      string         `json:"kind"`
	Check     string         `json:"check"`
	Signature map[string]any `json:"signature"`
	What      string         `json:"what"`
	Replay    any            `json:"replay,omitempty"`
	Count     int            `json:"count"`
}

// Result is what one harness process (one shard of one part) reports.
type Result struct {
	Part       string         `json:"part"`
	Shard      int            `json:"shard"`
	NShards    int            `json:"nshards"`
	Tier       string         `json:"tier"`
	Evals      int64          `json:"evaluations"`
	Distinct   int64          `json:"distinct_nontrivial"`
	States     int64          `json:"states"`
	Trans      int64          `json:"transitions"`
	Validated  int64          `json:"traces_validated_against_impl"`
	Rule       string         `json:"rule"`
	Samples    []any          `json:"samples"`
	Exhaustive bool           `json:"exhaustive"`
	Extra      map[string]any `json:"extra,omitempty"`
	Violations []*Violation   `json:"violations"`
	Infra      []string       `json:"infra_errors,omitempty"`
	WallS      float64        `json:"wall_s"`

	mu       sync.Mutex
	distinct map[[16]byte]struct{}
	vindex   map[string]*Violation
	start    time.Time
	maxSamp  int
}

// Flags common to every harness.
type Flags struct {
	Tier    string
	Shard   int
	NShards int
	Out     string
	Replay  string
	Seed    int64
	Args    map[string]string
}

var F Flags

// Parse parses the common harness flags.
func Parse() *Result {
	flag.StringVar(&F.Tier, "tier", "quick", "quick|thorough")
	flag.IntVar(&F.Shard, "shard", 0, "shard index")
	flag.IntVar(&F.NShards, "nshards", 1, "number of shards")
	flag.StringVar(&F.Out, "out", "", "result file")
	flag.StringVar(&F.Replay, "replay", "", "replay artefact")
	flag.Int64Var(&F.Seed, "seed", 0, "seed (only permutes order)")
	kv := flag.String("args", "", "k=v,k=v extra arguments")
	flag.Parse()
	F.Args = map[string]string{}
	for _, p := range strings.Split(*kv, ",") {
		if i := strings.Index(p, "="); i > 0 {
			F.Args[p[:i]] = p[i+1:]
		}
	}
	return New("")
}

func New(part string) *Result {
	return &Result{Part: part, Shard: F.Shard, NShards: F.NShards, Tier: F.Tier, Exhaustive: true,
		distinct: map[[16]byte]struct{}{}, vindex: map[string]*Violation{}, start: time.Now(),
		Extra: map[string]any{}, maxSamp: 8}
}

// Mine reports whether work item i belongs to this shard.
func Mine(i int) bool { return F.NShards <= 1 || i%F.NShards == F.Shard }

// MineKey assigns work items to shards by a hash of their key (avoids striding artefacts).
func MineKey(key string) bool {
	if F.NShards <= 1 {
		return true
	}
	h := sha256.Sum256([]byte(key))
	v := uint32(h[0])<<24 | uint32(h[1])<<16 | uint32(h[2])<<8 | uint32(h[3])
	return int(v%uint32(F.NShards)) == F.Shard
}

// Eval counts one evaluated case.
func (r *Result) Eval() { r.mu.Lock(); r.Evals++; r.mu.Unlock() }

// EvalN counts n evaluated cases.
func (r *Result) EvalN(n int64) { r.mu.Lock(); r.Evals += n; r.mu.Unlock() }

// Nontrivial records a case that is non-trivial by the harness's rule, keyed for distinctness.
func (r *Result) Nontrivial(key string) {
	h := sha256.Sum256([]byte(key))
	var k [16]byte
	copy(k[:], h[:16])
	r.mu.Lock()
	if _, ok := r.distinct[k]; !ok {
		r.distinct[k] = struct{}{}
		r.Distinct++
	}
	r.mu.Unlock()
}

// Sample keeps up to a handful of written-out cases.
func (r *Result) Sample(s any) {
	r.mu.Lock()
	if len(r.Samples) < r.maxSamp {
		r.Samples = append(r.Samples, s)
	}
	r.mu.Unlock()
}

// SampleEvery keeps s if fewer than max samples or i hits a sparse stride (spreads samples).
func (r *Result) SampleSpread(i int64, s any) {
	if i == 0 || i == 10 || i == 1000 || i == 100000 || i == 10000000 {
		r.mu.Lock()
		if len(r.Samples) < 16 {
			r.Samples = append(r.Samples, s)
		}
		r.mu.Unlock()
	}
}

func SigKey(kind, check string, sig map[string]any) string {
	b, _ := json.Marshal(sig) // maps are marshalled with sorted keys
	return kind + "|" + check + "|" + string(b)
}

// Violate records a violation; violations with equal (kind, check, signature) are merged
// and only the first replay artefact is kept.
func (r *Result) Violate(kind, check string, sig map[string]any, what string, replay any) {
	k := SigKey(kind, check, sig)
	r.mu.Lock()
	defer r.mu.Unlock()
	if v, ok := r.vindex[k]; ok {
		v.Count++
		return
	}
	v := &Violation{Kind: kind, Check: check, Signature: sig, What: what, Replay: replay, Count: 1}
	r.vindex[k] = v
	r.Violations = append(r.Violations, v)
}

func (r *Result) InfraError(format string, a ...any) {
	r.mu.Lock()
	r.Infra = append(r.Infra, fmt.Sprintf(format, a...))
	r.mu.Unlock()
}

func (r *Result) NotExhaustive(why string) {
	r.mu.Lock()
	r.Exhaustive = false
	r.Extra["not_exhaustive_reason"] = why
	r.mu.Unlock()
}

// Finish writes the result file and exits (0 always unless infra errors: 2).
func (r *Result) Finish() {
	r.WallS = time.Since(r.start).Seconds()
	sort.Slice(r.Violations, func(i, j int) bool {
		return SigKey(r.Violations[i].Kind, r.Violations[i].Check, r.Violations[i].Signature) <
			SigKey(r.Violations[j].Kind, r.Violations[j].Check, r.Violations[j].Signature)
	})
	if r.Violations == nil {
		r.Violations = []*Violation{}
	}
	b, err := json.MarshalIndent(r, "", " ")
	if err != nil {
		fmt.Fprintln(os.Stderr, "vlib: marshal:", err)
		os.Exit(2)
	}
	if F.Out == "" {
		os.Stdout.Write(b)
		os.Stdout.WriteString("\n")
	} else if err := os.WriteFile(F.Out, b, 0644); err != nil {
		fmt.Fprintln(os.Stderr, "vlib: write:", err)
		os.Exit(2)
	}
	if len(r.Infra) > 0 {
		for _, e := range r.Infra {
			fmt.Fprintln(os.Stderr, "INFRA:", e)
		}
		os.Exit(2)
	}
	os.Exit(0)
}

// Deadline returns a time budget helper: Expired() turns true after d.
type Budget struct{ end time.Time }

func NewBudget(d time.Duration) *Budget { return &Budget{end: time.Now().Add(d)} }
func (b *Budget) Expired() bool         { return time.Now().After(b.end) }

func Hex(b []byte) string { return hex.EncodeToString(b) }

// Arg returns an extra argument or a default.
func Arg(k, def string) string {
	if v, ok := F.Args[k]; ok {
		return v
	}
	return def
}

// ArgInt is Arg for integers.
func ArgInt(k string, def int64) int64 {
	if v, ok := F.Args[k]; ok {
		var n int64
		if _, err := fmt.Sscan(v, &n); err == nil {
			return n
		}
	}
	return def
}

// ReadJSON reads a JSON file into v.
func ReadJSON(path string, v any) error {
	b, err := os.ReadFile(path)
	if err != nil {
		return err
	}
	return json.Unmarshal(b, v)
}

// JSON marshals v compactly (for replay artefacts).
func JSON(v any) string { b, _ := json.Marshal(v); return string(b) }

// FromJSON unmarshals s into v.
func FromJSON(s string, v any) error { return json.Unmarshal([]byte(s), v) }

// Merge adds the counts, samples and violations of another result (a worker subprocess).
func (r *Result) Merge(o *Result) {
	r.mu.Lock()
	defer r.mu.Unlock()
	r.Evals += o.Evals
	r.Distinct += o.Distinct
	r.States += o.States
	r.Trans += o.Trans
	r.Validated += o.Validated
	for _, s := range o.Samples {
		if len(r.Samples) < 12 {
			r.Samples = append(r.Samples, s)
		}
	}
	if !o.Exhaustive {
		r.Exhaustive = false
	}
	r.Infra = append(r.Infra, o.Infra...)
	for _, v := range o.Violations {
		k := SigKey(v.Kind, v.Check, v.Signature)
		if old, ok := r.vindex[k]; ok {
			old.Count += v.Count
			continue
		}
		r.vindex[k] = v
		r.Violations = append(r.Violations, v)
	}
}

// WriteTo writes the result to a file without exiting (worker subprocesses).
func (r *Result) WriteTo(path string) error {
	if r.Violations == nil {
		r.Violations = []*Violation{}
	}
	b, err := json.Marshal(r)
	if err != nil {
		return err
	}
	return os.WriteFile(path, b, 0644)
}
