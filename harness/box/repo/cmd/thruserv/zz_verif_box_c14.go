//go:build verif

package main

import (
	"encoding/json"
	"fmt"
	"strings"
	"time"

	websocket "github.com/sheerbytes/sheerbytes/internal/verif/venv/vws"
	"github.com/sheerbytes/sheerbytes/internal/verif/vlib"
	vrt "github.com/sheerbytes/sheerbytes/internal/verif/vrt"
	"github.com/sheerbytes/sheerbytes/pkg/protocol"
)

// ---- C14 (server level): join-code lifetime and limits on the real server ----

type LimCfg struct {
	MaxSessions int `json:"max_sessions"`
	MaxRecv     int `json:"max_receivers"`
	MaxWS       int `json:"max_ws"`
	TTLSec      int `json:"ttl_s"`
}

func (c LimCfg) args() []string {
	return []string{
		"--max-sessions", fmt.Sprint(c.MaxSessions), "--max-receivers-per-sender", fmt.Sprint(c.MaxRecv),
		"--max-ws-connections", fmt.Sprint(c.MaxWS), "--session-timeout", fmt.Sprintf("%ds", c.TTLSec),
		"--ws-connects-per-min", "0", "--session-creates-per-min", "0", "--ws-msgs-per-sec", "0", "--ws-idle-timeout", "0",
	}
}

type LifeEv struct {
	Kind string `json:"k"` // create | host | recv | disc | tick
	Sess int    `json:"s,omitempty"`
	Conn int    `json:"c,omitempty"`
}

func (e LifeEv) String() string {
	switch e.Kind {
	case "create", "tick":
		return e.Kind
	case "disc":
		return fmt.Sprintf("disc(#%d)", e.Conn)
	}
	return fmt.Sprintf("%s(s%d)", e.Kind, e.Sess)
}

const tickDur = 25 * time.Second

// hostAnnounces is the max_receivers value every host of the searches sends with its connect,
// as the real CLI does (the limit checks of POST /session and of /ws must agree about it).
const hostAnnounces = 2

// reference model
type mSess struct {
	created   bool
	alive     bool
	expiresAt time.Duration // 0 = never
}
type mConn struct {
	sess     int
	role     string
	open     bool
	admitted bool
}
type lifeModel struct {
	cfg   LimCfg
	now   time.Duration
	sess  []mSess
	conns []mConn
}

func (m *lifeModel) aliveCount() int {
	n := 0
	for _, s := range m.sess {
		if s.alive {
			n++
		}
	}
	return n
}
func (m *lifeModel) openCount() int {
	n := 0
	for _, c := range m.conns {
		if c.open {
			n++
		}
	}
	return n
}
func (m *lifeModel) recvCount(s int) int {
	n := 0
	for _, c := range m.conns {
		if c.open && c.sess == s && c.role == "receiver" {
			n++
		}
	}
	return n
}

// apply returns the status the model expects for the event (0 = no response to judge).
func (m *lifeModel) apply(e LifeEv, settleBy time.Duration) int {
	want := 0
	switch e.Kind {
	case "create":
		if m.cfg.MaxSessions > 0 && m.aliveCount() >= m.cfg.MaxSessions {
			want = 429
			m.sess = append(m.sess, mSess{})
		} else {
			want = 201
			s := mSess{created: true, alive: true}
			if m.cfg.TTLSec > 0 {
				s.expiresAt = m.now + time.Duration(m.cfg.TTLSec)*time.Second
			}
			m.sess = append(m.sess, s)
		}
	case "host", "recv":
		role := "sender"
		if e.Kind == "recv" {
			role = "receiver"
		}
		c := mConn{sess: e.Sess, role: role}
		switch {
		case !m.sess[e.Sess].alive:
			want = 404
		case role == "sender" && m.cfg.MaxRecv > 0 && hostAnnounces > m.cfg.MaxRecv:
			want = 429 // the host asks for more receivers than this server allows
		case m.cfg.MaxWS > 0 && m.openCount() >= m.cfg.MaxWS:
			want = 429
		case role == "receiver" && m.cfg.MaxRecv > 0 && m.recvCount(e.Sess) >= m.cfg.MaxRecv:
			want = 429
		default:
			want = 101
			c.open, c.admitted = true, true
		}
		m.conns = append(m.conns, c)
	case "disc":
		c := &m.conns[e.Conn]
		if c.open {
			c.open = false
			if c.role == "sender" {
				m.sess[c.sess].alive = false
			}
		}
	case "tick":
		m.now += tickDur
	}
	m.now += settleBy
	for i := range m.sess {
		s := &m.sess[i]
		if s.alive && s.expiresAt > 0 && m.now >= s.expiresAt {
			s.alive = false
			for k := range m.conns {
				if m.conns[k].sess == i {
					m.conns[k].open = false
				}
			}
		}
	}
	return want
}

func (m *lifeModel) canon() string {
	var b strings.Builder
	for _, s := range m.sess {
		rem := 0
		if s.alive && s.expiresAt > 0 {
			rem = int((s.expiresAt-m.now)/tickDur) + 1
		}
		fmt.Fprintf(&b, "s%v/%d;", s.alive, rem)
	}
	for _, c := range m.conns {
		fmt.Fprintf(&b, "c%d%s%v;", c.sess, c.role[:1], c.open)
	}
	return b.String()
}

func (m *lifeModel) alphabet(maxCreates, maxConns int) []LifeEv {
	var out []LifeEv
	if len(m.sess) < maxCreates {
		out = append(out, LifeEv{Kind: "create"})
	}
	if len(m.conns) < maxConns {
		for s := range m.sess {
			hostSeen := false
			for _, c := range m.conns {
				if c.sess == s && c.role == "sender" {
					hostSeen = true
				}
			}
			// a session slot whose creation was refused has no code to join with
			if m.sess[s].created {
				if !hostSeen {
					out = append(out, LifeEv{Kind: "host", Sess: s})
				}
				out = append(out, LifeEv{Kind: "recv", Sess: s})
			}
		}
	}
	for k, c := range m.conns {
		if c.open {
			out = append(out, LifeEv{Kind: "disc", Conn: k})
		}
	}
	if m.cfg.TTLSec > 0 {
		out = append(out, LifeEv{Kind: "tick"})
	}
	return out
}

type lifeWorld struct {
	sess    []sessionInfo
	clients []*Client
	status  []int // per event: observed status
}

const lifeSettle = 50 * time.Millisecond

func lifeBuild(cfg LimCfg, hist []LifeEv) *lifeWorld {
	w := &lifeWorld{}
	startServer(cfg.args())
	for _, e := range hist {
		st := 0
		switch e.Kind {
		case "create":
			s := createSession("")
			w.sess = append(w.sess, s)
			st = s.Status
		case "host", "recv":
			role, peer := "sender", fmt.Sprintf("h%d", e.Sess)
			if e.Kind == "recv" {
				role, peer = "receiver", fmt.Sprintf("r%d", len(w.clients))
			}
			extra := ""
			if role == "sender" {
				extra = fmt.Sprintf("max_receivers=%d", hostAnnounces)
			}
			c := connectURL(fmt.Sprintf("c%d", len(w.clients)), wsURL(w.sess[e.Sess].Code, peer, role, extra))
			c.Peer, c.Role = peer, role
			c.Sess = e.Sess
			w.clients = append(w.clients, c)
			st = c.Status
			if c.conn != nil {
				st = 101
			}
		case "disc":
			w.clients[e.Conn].close()
		case "tick":
			vrt.Sleep(tickDur)
		}
		vrt.Sleep(lifeSettle)
		w.status = append(w.status, st)
	}
	return w
}

type c14Replay struct {
	Scenario string   `json:"scenario"`
	Cfg      LimCfg   `json:"cfg"`
	History  []LifeEv `json:"history,omitempty"`
	Params   []int    `json:"params,omitempty"`
	Choices  []int    `json:"choices,omitempty"`
}

func histStr(h []LifeEv) string {
	s := make([]string, len(h))
	for i, e := range h {
		s[i] = e.String()
	}
	return strings.Join(s, " ")
}

func c14Outcome(x *vrt.Exec, desc string, rp c14Replay) bool {
	rp.Choices = append([]int{}, x.Choices()...)
	switch x.Outcome {
	case "ok":
		return true
	case "panic":
		res.Violate("panic", "box/c14", map[string]any{"panic": x.Detail}, fmt.Sprintf("[%s]: server panic %s", desc, x.Detail), rp)
	case "deadlock", "stall":
		res.Violate("hang", "box/c14", map[string]any{"blocked": x.Blocked}, fmt.Sprintf("[%s]: %s %v", desc, x.Outcome, x.Blocked), rp)
	default:
		res.InfraError("[%s]: outcome %s %s", desc, x.Outcome, x.Detail)
	}
	return false
}

// lifeCheck replays hist on the real server and on the model and compares every response.
func lifeCheck(cfg LimCfg, hist []LifeEv) (*lifeModel, bool) {
	m := &lifeModel{cfg: cfg}
	want := make([]int, len(hist))
	for i, e := range hist {
		want[i] = m.apply(e, lifeSettle)
	}
	var w *lifeWorld
	x := vrt.Run(boxCfg(), nil, func() { w = lifeBuild(cfg, hist) })
	rp := c14Replay{Scenario: "life", Cfg: cfg, History: hist}
	desc := fmt.Sprintf("%+v: %s", cfg, histStr(hist))
	if !c14Outcome(x, desc, rp) {
		return m, false
	}
	ok := true
	for i, e := range hist {
		if want[i] == 0 || w.status[i] == want[i] {
			continue
		}
		ok = false
		cls := "status-differs"
		switch {
		case e.Kind == "create" && want[i] == 429:
			cls = "session-limit-exceeded"
		case e.Kind == "create":
			cls = "create-refused-below-limit"
		case want[i] == 404:
			cls = "join-code-admits-after-session-ended"
		case want[i] == 429 && w.status[i] == 101:
			cls = "connection-or-receiver-limit-exceeded"
		case want[i] == 101 && w.status[i] == 404:
			cls = "join-code-dead-while-session-lives"
		case want[i] == 101:
			cls = "refused-below-limit"
		}
		res.Violate("mismatch", "box/c14", map[string]any{"class": cls, "event": e.Kind},
			fmt.Sprintf("%+v after [%s]: %s answered %d, the model of the documented behaviour expects %d", cfg, histStr(hist[:i]), e, w.status[i], want[i]), rp)
	}
	// live codes pairwise distinct; sessions ids distinct
	seen := map[string]int{}
	for i, s := range w.sess {
		if s.Status != 201 {
			continue
		}
		if j, dup := seen[s.Code]; dup && m.sess[i].alive && m.sess[j].alive {
			ok = false
			res.Violate("mismatch", "box/c14", map[string]any{"class": "duplicate-join-code"}, fmt.Sprintf("sessions %d and %d are both live with join code %s", j, i, s.Code), rp)
		}
		seen[s.Code] = i
	}
	// connections the model says were closed by expiry must be closed; open ones must be open
	for k, c := range m.conns {
		if !c.admitted || k >= len(w.clients) {
			continue
		}
		cl := w.clients[k]
		if c.open && cl.Closed {
			ok = false
			res.Violate("mismatch", "box/c14", map[string]any{"class": "connection-closed-unexpectedly"}, fmt.Sprintf("%+v [%s]: connection #%d was closed by the server", cfg, histStr(hist), k), rp)
		}
	}
	return m, ok
}

func lifeGrid(thorough bool) []LimCfg {
	var out []LimCfg
	for _, ms := range []int{0, 1, 2} {
		for _, mr := range []int{0, 1, 2} {
			for _, mw := range []int{0, 1, 3} {
				for _, ttl := range []int{0, 60} {
					out = append(out, LimCfg{ms, mr, mw, ttl})
				}
			}
		}
	}
	return out
}

func modeC14() {
	res.Rule = "explicit-state conformance search: for every limit configuration (max sessions x max receivers x max connections x lifetime, each with 0 = disabled) breadth-first search over histories of create / host join / receiver join / disconnect / clock tick on the real server in a box, every response compared with a reference model of the documented behaviour, states canonicalised by the model state; then concurrent bursts at each limit (all interleavings within the delay bound, lock acquisitions are scheduling points) and enumerated token-bucket / message-size scenarios on the virtual clock; non-trivial = distinct (configuration, model state) or scenario instance"
	thorough := vlib.F.Tier == "thorough"
	depth := 5
	if thorough {
		depth = 7
	}
	budget := 150 * time.Second
	if thorough {
		budget = 28 * time.Minute
	}
	deadline := time.Now().Add(budget)
	cut := false
	var states, trans int64
	for ci, cfg := range lifeGrid(thorough) {
		if !vlib.Mine(ci) {
			continue
		}
		seen := map[string]bool{}
		frontier := [][]LifeEv{nil}
		seen[(&lifeModel{cfg: cfg}).canon()] = true
		nstates := 1
		for d := 0; d < depth && !cut; d++ {
			var next [][]LifeEv
			for _, h := range frontier {
				m := &lifeModel{cfg: cfg}
				for _, e := range h {
					m.apply(e, lifeSettle)
				}
				for _, e := range m.alphabet(3, 4) {
					if time.Now().After(deadline) {
						cut = true
						break
					}
					hist := append(append([]LifeEv{}, h...), e)
					m2, ok := lifeCheck(cfg, hist)
					trans++
					res.Eval()
					if !ok {
						continue
					}
					k := m2.canon()
					if !seen[k] {
						seen[k] = true
						nstates++
						next = append(next, hist)
						res.Nontrivial(fmt.Sprintf("%+v|%s", cfg, k))
					}
				}
			}
			frontier = next
		}
		states += int64(nstates)
		res.SampleSpread(int64(ci), map[string]any{"config": cfg, "states": nstates})
	}
	res.Extra["life_states"] = float64(states)
	// concurrent bursts
	bursts := c14Bursts()
	var burstExecs int64
	for bi, b := range bursts {
		if !vlib.Mine(bi) || cut {
			continue
		}
		b := b
		var out *burstOut
		cfg := boxCfg()
		cfg.LockPoints = true
		cfg.TimerTies = true // expiry and a join due at the same instant: both orders
		cfg.Demote = true    // one deviation may keep a request handler out of the way for long
		bound := 2
		if thorough {
			bound = 3
		}
		ex := &vrt.Explorer{Cfg: cfg, Bound: bound, Deadline: deadline, Root: func() { out = b.run() }}
		ex.Visit = func(x *vrt.Exec) bool {
			burstExecs++
			rp := c14Replay{Scenario: b.name, Cfg: b.cfg, Params: b.params}
			if c14Outcome(x, b.name, rp) && out != nil {
				rp.Choices = append([]int{}, x.Choices()...)
				for _, v := range out.viol {
					res.Violate("mismatch", "box/c14", map[string]any{"class": v[0], "scenario": b.kind}, fmt.Sprintf("%s %+v: %s", b.name, b.cfg, v[1]), rp)
				}
				res.Nontrivial(b.name + "|" + out.outcome)
			}
			return true
		}
		outcomes := map[string]int{}
		visit0 := ex.Visit
		ex.Visit = func(x *vrt.Exec) bool {
			r := visit0(x)
			if out != nil && x.Outcome == "ok" {
				outcomes[out.outcome]++
			}
			return r
		}
		ex.Run()
		res.Extra["burst:"+b.name] = fmt.Sprintf("%d executions, outcomes %v", ex.Execs, outcomes)
		if !ex.Complete {
			cut = true
		}
		for _, d := range ex.Divergence {
			res.InfraError("%s: replay divergence %s", b.name, d)
		}
		trans += ex.Execs
	}
	res.EvalN(burstExecs)
	res.Extra["burst_executions"] = float64(burstExecs)
	// rates and sizes
	for si, sc := range c14RateScenarios() {
		if !vlib.Mine(si) || cut {
			continue
		}
		sc := sc
		var viol [][2]string
		x := vrt.Run(boxCfg(), nil, func() { viol = sc.run() })
		trans++
		res.Eval()
		res.Nontrivial(sc.name)
		rp := c14Replay{Scenario: sc.name, Params: sc.params}
		if c14Outcome(x, sc.name, rp) {
			for _, v := range viol {
				res.Violate("mismatch", "box/c14", map[string]any{"class": v[0], "scenario": sc.kind}, fmt.Sprintf("%s: %s", sc.name, v[1]), rp)
			}
		}
	}
	res.States = states
	res.Trans = trans
	res.Validated = trans
	if cut {
		res.NotExhaustive("time budget")
	}
}

// ---- bursts ----

type burstOut struct {
	viol    [][2]string
	outcome string
}

type burst struct {
	name, kind string
	cfg        LimCfg
	params     []int
	run        func() *burstOut
}

func allOff() LimCfg { return LimCfg{} }

func c14Bursts() []burst {
	var out []burst
	// B1: concurrent creates at the session limit
	for _, lim := range []int{1, 2} {
		for _, n := range []int{2, 3} {
			lim, n := lim, n
			cfg := allOff()
			cfg.MaxSessions = lim
			out = append(out, burst{name: fmt.Sprintf("creates(limit=%d,n=%d)", lim, n), kind: "concurrent-creates", cfg: cfg, params: []int{lim, n}, run: func() *burstOut {
				startServer(cfg.args())
				for i := 0; i < lim-1; i++ {
					createSession("")
				}
				st := make([]sessionInfo, n)
				var wg vrt.WaitGroup
				for i := 0; i < n; i++ {
					i := i
					wg.Add(1)
					vrt.GoNamed(fmt.Sprintf("create-%d", i), "client", func() { defer wg.Done(); st[i] = createSession("") })
				}
				wg.Wait()
				o := &burstOut{}
				okc := 0
				codes := map[string]bool{}
				for _, s := range st {
					o.outcome += fmt.Sprint(s.Status, ",")
					if s.Status == 201 {
						okc++
						if codes[s.Code] {
							o.viol = append(o.viol, [2]string{"duplicate-join-code", "two concurrent creates returned the same code " + s.Code})
						}
						codes[s.Code] = true
					}
				}
				if lim-1+okc > lim {
					o.viol = append(o.viol, [2]string{"session-limit-exceeded", fmt.Sprintf("%d sessions live with --max-sessions %d after %d concurrent creates (statuses %s)", lim-1+okc, lim, n, o.outcome)})
				}
				if okc == 0 {
					o.viol = append(o.viol, [2]string{"create-refused-below-limit", "no concurrent create succeeded although a slot was free"})
				}
				return o
			}})
		}
	}
	// B2: concurrent receiver joins at the receiver limit; B3: concurrent connects at the connection limit
	for _, which := range []string{"receivers", "connections"} {
		for _, lim := range []int{1, 2} {
			which, lim := which, lim
			cfg := allOff()
			pre := lim - 1
			if which == "receivers" {
				cfg.MaxRecv = lim
			} else {
				cfg.MaxWS = lim + 1 // the host holds one
			}
			out = append(out, burst{name: fmt.Sprintf("joins(%s limit=%d)", which, lim), kind: "concurrent-joins-" + which, cfg: cfg, params: []int{lim}, run: func() *burstOut {
				startServer(cfg.args())
				s := createSession("")
				connect("host", s.Code, "h", "sender")
				for i := 0; i < pre; i++ {
					connect(fmt.Sprintf("pre%d", i), s.Code, fmt.Sprintf("p%d", i), "receiver")
				}
				cl := make([]*Client, 2)
				var wg vrt.WaitGroup
				for i := 0; i < 2; i++ {
					i := i
					wg.Add(1)
					vrt.GoNamed(fmt.Sprintf("join-%d", i), "client", func() {
						defer wg.Done()
						cl[i] = connect(fmt.Sprintf("j%d", i), s.Code, fmt.Sprintf("r%d", i), "receiver")
					})
				}
				wg.Wait()
				vrt.Sleep(lifeSettle)
				o := &burstOut{}
				adm := 0
				for _, c := range cl {
					if c.conn != nil {
						adm++
						o.outcome += "101,"
					} else {
						o.outcome += fmt.Sprint(c.Status, ",")
					}
				}
				if pre+adm > lim {
					o.viol = append(o.viol, [2]string{which + "-limit-exceeded", fmt.Sprintf("%d receivers connected at once with the %s limit at %d (two joins arrived together: %s)", pre+adm, which, lim, o.outcome)})
				}
				if adm == 0 {
					o.viol = append(o.viol, [2]string{"refused-below-limit", "neither concurrent join was admitted although a slot was free"})
				}
				return o
			}})
		}
	}
	// B4: host disconnect || receiver join; B5: expiry || join. Afterwards the code must be dead.
	for _, kind := range []string{"host-leaves", "expiry"} {
		kind := kind
		cfg := allOff()
		if kind == "expiry" {
			cfg.TTLSec = 60
		}
		out = append(out, burst{name: "join||" + kind, kind: "join-vs-" + kind, cfg: cfg, run: func() *burstOut {
			startServer(cfg.args())
			s := createSession("")
			host := connect("host", s.Code, "h", "sender")
			vrt.Sleep(lifeSettle)
			var j *Client
			var wg vrt.WaitGroup
			wg.Add(2)
			vrt.GoNamed("ender", "client", func() {
				defer wg.Done()
				if kind == "expiry" {
					vrt.Sleep(60*time.Second - lifeSettle)
				} else {
					host.close()
				}
			})
			vrt.GoNamed("joiner", "client", func() {
				defer wg.Done()
				if kind == "expiry" {
					vrt.Sleep(60*time.Second - lifeSettle)
				}
				j = connect("j", s.Code, "r", "receiver")
			})
			wg.Wait()
			vrt.Sleep(2 * time.Second)
			o := &burstOut{}
			if j.conn != nil {
				o.outcome = "raced-join-admitted"
			} else {
				o.outcome = fmt.Sprint("raced-join-", j.Status)
				if j.Status != 404 {
					o.viol = append(o.viol, [2]string{"status-differs", fmt.Sprintf("racing join answered %d", j.Status)})
				}
			}
			late := connect("late", s.Code, "r2", "receiver")
			if late.conn != nil || late.Status != 404 {
				o.viol = append(o.viol, [2]string{"join-code-admits-after-session-ended", fmt.Sprintf("a join after the session ended (%s) was answered %d", kind, late.Status)})
			}
			return o
		}})
	}
	// B7/B8: token buckets under concurrent arrivals
	for _, which := range []string{"ws-connects", "session-creates"} {
		which := which
		out = append(out, burst{name: "bucket(" + which + ")", kind: "concurrent-bucket-" + which, cfg: allOff(), run: func() *burstOut {
			args := allOff().args()
			for i := 0; i < len(args); i += 2 {
				if args[i] == "--"+which+"-per-min" {
					args[i+1] = "60"
				}
			}
			args = append(args, "--"+which+"-burst", "1")
			startServer(args)
			s := createSession("")
			o := &burstOut{}
			okc := 0
			if which == "session-creates" {
				// the first create took the only token; the bucket refills at 1/s
				vrt.Sleep(1 * time.Second)
			}
			st := make([]int, 2)
			var wg vrt.WaitGroup
			for i := 0; i < 2; i++ {
				i := i
				wg.Add(1)
				vrt.GoNamed(fmt.Sprintf("req-%d", i), "client", func() {
					defer wg.Done()
					if which == "ws-connects" {
						c := connect(fmt.Sprintf("j%d", i), s.Code, fmt.Sprintf("r%d", i), "receiver")
						st[i] = c.Status
						if c.conn != nil {
							st[i] = 101
						}
					} else {
						st[i] = createSession("").Status
					}
				})
			}
			wg.Wait()
			for _, v := range st {
				o.outcome += fmt.Sprint(v, ",")
				if v == 101 || v == 201 {
					okc++
				}
			}
			if okc > 1 {
				o.viol = append(o.viol, [2]string{"rate-limit-exceeded", fmt.Sprintf("%d requests admitted at the same instant with burst 1 (%s)", okc, o.outcome)})
			}
			if okc == 0 {
				o.viol = append(o.viol, [2]string{"refused-below-limit", "no request admitted although the bucket held a token"})
			}
			return o
		}})
	}
	return out
}

// ---- rates and sizes (sequential, virtual clock) ----

type rateScenario struct {
	name, kind string
	params     []int
	run        func() [][2]string
}

type bucketModel struct {
	tokens, rate, burst float64
	last                time.Duration
}

func (b *bucketModel) allow(now time.Duration) bool {
	el := (now - b.last).Seconds()
	b.last = now
	b.tokens += el * b.rate
	if b.tokens > b.burst {
		b.tokens = b.burst
	}
	if b.tokens < 1 {
		return false
	}
	b.tokens--
	return true
}

func c14RateScenarios() []rateScenario {
	var out []rateScenario
	gaps := []int{0, 400, 1000}
	// session lifetime against the phase of the wall clock: the virtual clock starts on a whole
	// second, so lifetimes are also measured from instants inside a second, and probed at once,
	// shortly before and shortly after the end of the lifetime
	for _, ttl := range []int{400, 900, 1500, 2000, 60000} {
		for _, phase := range []int{0, 150, 650, 990} {
			for _, probe := range []string{"at-once", "before-end", "after-end"} {
				ttl, phase, probe := ttl, phase, probe
				out = append(out, rateScenario{name: fmt.Sprintf("lifetime(ttl=%dms,phase=%dms,%s)", ttl, phase, probe), kind: "session-lifetime", params: []int{ttl, phase}, run: func() (viol [][2]string) {
					args := allOff().args()
					for i := 0; i < len(args); i += 2 {
						if args[i] == "--session-timeout" {
							args[i+1] = fmt.Sprintf("%dms", ttl)
						}
					}
					startServer(args)
					vrt.Sleep(time.Duration(phase) * time.Millisecond)
					s := createSession("")
					if s.Status != 201 {
						return [][2]string{{"status-differs", fmt.Sprintf("POST /session answered %d", s.Status)}}
					}
					switch probe {
					case "before-end":
						vrt.Sleep(time.Duration(ttl-50) * time.Millisecond)
					case "after-end":
						vrt.Sleep(time.Duration(ttl+50) * time.Millisecond)
					}
					h := connect("h", s.Code, "h", "sender")
					if probe == "after-end" {
						if h.conn != nil || h.Status != 404 {
							viol = append(viol, [2]string{"join-code-admits-after-session-ended", fmt.Sprintf("a join %d ms after the end of a %d ms lifetime was answered %d", 50, ttl, h.Status)})
						}
						return
					}
					if h.conn == nil {
						viol = append(viol, [2]string{"join-code-refused-while-alive", fmt.Sprintf("a join inside the %d ms lifetime (session created %d ms into a second, probe %s) was answered %d", ttl, phase, probe, h.Status)})
					}
					return
				}})
			}
		}
	}
	// message rate per connection
	for _, rate := range []int{0, 1, 2} {
		for _, bst := range []int{1, 2, 3} {
			for _, gap := range gaps {
				rate, bst, gap := rate, bst, gap
				out = append(out, rateScenario{name: fmt.Sprintf("msg-rate(rate=%d/s,burst=%d,gap=%dms)", rate, bst, gap), kind: "message-rate", params: []int{rate, bst, gap}, run: func() (viol [][2]string) {
					args := allOff().args()
					for i := 0; i < len(args); i += 2 {
						if args[i] == "--ws-msgs-per-sec" {
							args[i+1] = fmt.Sprint(rate)
						}
					}
					args = append(args, "--ws-msgs-burst", fmt.Sprint(bst))
					startServer(args)
					s := createSession("")
					a := connect("a", s.Code, "a", "sender")
					b := connect("b", s.Code, "b", "receiver")
					vrt.Sleep(lifeSettle)
					b.seen = len(b.Raw)
					t0 := vrt.Now()
					m := &bucketModel{tokens: float64(bst), rate: float64(rate), burst: float64(bst)}
					n := bst + 3
					want := 0
					tripped := false
					for i := 0; i < n; i++ {
						if i > 0 && gap > 0 {
							vrt.Sleep(time.Duration(gap) * time.Millisecond)
						}
						env, _ := protocol.NewEnvelope("offer", fmt.Sprintf("m%d", i), nil)
						env.To = "b"
						a.sendEnv(env)
						if !tripped {
							if rate == 0 || m.allow(vrt.Now().Sub(t0)) {
								want++
							} else {
								tripped = true
							}
						}
					}
					vrt.Sleep(lifeSettle)
					got := 0
					for _, raw := range b.Raw[b.seen:] {
						var f protocol.Envelope
						if json.Unmarshal([]byte(raw), &f) == nil && f.From == "a" {
							got++
						}
					}
					if got > want {
						viol = append(viol, [2]string{"rate-limit-exceeded", fmt.Sprintf("%d messages relayed, the configured bucket allows %d", got, want)})
					}
					if got < want {
						cls := "refused-below-limit"
						if rate == 0 {
							cls = "zero-is-not-unlimited"
						}
						viol = append(viol, [2]string{cls, fmt.Sprintf("%d messages relayed, the configured bucket allows %d", got, want)})
					}
					if tripped != a.Closed && rate > 0 {
						viol = append(viol, [2]string{"status-differs", fmt.Sprintf("connection closed=%v, model tripped=%v", a.Closed, tripped)})
					}
					return
				}})
			}
		}
	}
	// message size
	for _, lim := range []int{200, 1000, 65536} {
		for _, delta := range []int{-1, 0, 1} {
			lim, delta := lim, delta
			out = append(out, rateScenario{name: fmt.Sprintf("msg-size(limit=%d,size=limit%+d)", lim, delta), kind: "message-size", params: []int{lim, delta}, run: func() (viol [][2]string) {
				args := append(allOff().args(), "--max-message-bytes", fmt.Sprint(lim))
				startServer(args)
				s := createSession("")
				a := connect("a", s.Code, "a", "sender")
				b := connect("b", s.Code, "b", "receiver")
				vrt.Sleep(lifeSettle)
				b.seen = len(b.Raw)
				env, _ := protocol.NewEnvelope("offer", "m", nil)
				env.To = "b"
				base, _ := json.Marshal(env)
				pad := lim + delta - len(base) - len(`,"payload":""`)
				env.Payload = json.RawMessage(`"` + strings.Repeat("x", pad) + `"`)
				msg, _ := json.Marshal(env)
				if len(msg) != lim+delta {
					return [][2]string{{"harness", fmt.Sprintf("built %d bytes, wanted %d", len(msg), lim+delta)}}
				}
				a.sendRaw(websocket.TextMessage, msg)
				vrt.Sleep(lifeSettle)
				got := 0
				for _, raw := range b.Raw[b.seen:] {
					var f protocol.Envelope
					if json.Unmarshal([]byte(raw), &f) == nil && f.From == "a" {
						got++
					}
				}
				if delta > 0 && got > 0 {
					viol = append(viol, [2]string{"message-size-limit-exceeded", fmt.Sprintf("a %d-byte message was relayed with --max-message-bytes %d", len(msg), lim)})
				}
				if delta <= 0 && got != 1 {
					viol = append(viol, [2]string{"refused-below-limit", fmt.Sprintf("a %d-byte message was not relayed with --max-message-bytes %d", len(msg), lim)})
				}
				return
			}})
		}
	}
	// connect / create rate per IP, including 0 = unlimited
	for _, which := range []string{"ws-connects", "session-creates"} {
		for _, perMin := range []int{0, 60, 120} {
			for _, bst := range []int{1, 2} {
				for _, gap := range gaps {
					which, perMin, bst, gap := which, perMin, bst, gap
					out = append(out, rateScenario{name: fmt.Sprintf("%s(per-min=%d,burst=%d,gap=%dms)", which, perMin, bst, gap), kind: which + "-rate", params: []int{perMin, bst, gap}, run: func() (viol [][2]string) {
						args := allOff().args()
						for i := 0; i < len(args); i += 2 {
							if args[i] == "--"+which+"-per-min" {
								args[i+1] = fmt.Sprint(perMin)
							}
						}
						args = append(args, "--"+which+"-burst", fmt.Sprint(bst))
						startServer(args)
						m := &bucketModel{tokens: float64(bst), rate: float64(perMin) / 60, burst: float64(bst)}
						t0 := vrt.Now()
						s := createSession("")
						if which == "session-creates" && perMin > 0 {
							m.allow(0)
						}
						n := bst + 4
						for i := 0; i < n; i++ {
							if gap > 0 {
								vrt.Sleep(time.Duration(gap) * time.Millisecond)
							}
							var st int
							if which == "ws-connects" {
								c := connect(fmt.Sprintf("c%d", i), s.Code, fmt.Sprintf("r%d", i), "receiver")
								st = c.Status
								if c.conn != nil {
									st = 101
								}
							} else {
								st = createSession("").Status
							}
							if i == 0 && which == "ws-connects" && perMin > 0 {
								// the bucket is created at the first request of this address
								m.last = vrt.Now().Sub(t0)
							}
							allowed := perMin == 0 || m.allow(vrt.Now().Sub(t0))
							adm := st == 101 || st == 201
							if adm && !allowed {
								viol = append(viol, [2]string{"rate-limit-exceeded", fmt.Sprintf("request %d admitted (%d) although the configured bucket is empty", i, st)})
							}
							if !adm && allowed {
								cls := "refused-below-limit"
								if perMin == 0 {
									cls = "zero-is-not-unlimited"
								}
								viol = append(viol, [2]string{cls, fmt.Sprintf("request %d refused (%d) although the configured bucket holds a token", i, st)})
							}
						}
						return
					}})
				}
			}
		}
	}
	// 0 = no limit, beyond the small counts of the grid
	out = append(out, rateScenario{name: "all-limits-zero x 24", kind: "zero-means-unlimited", run: func() (viol [][2]string) {
		startServer(allOff().args())
		var s sessionInfo
		for i := 0; i < 24; i++ {
			s = createSession("")
			if s.Status != 201 {
				return [][2]string{{"zero-is-not-unlimited", fmt.Sprintf("create %d answered %d with --max-sessions 0", i, s.Status)}}
			}
		}
		if h := connectURL("h", wsURL(s.Code, "h", "sender", "max_receivers=50")); h.conn == nil {
			return [][2]string{{"zero-is-not-unlimited", fmt.Sprintf("a host announcing 50 receivers was answered %d with --max-receivers-per-sender 0", h.Status)}}
		}
		if c := createSession("max_receivers=50"); c.Status != 201 {
			return [][2]string{{"zero-is-not-unlimited", fmt.Sprintf("POST /session?max_receivers=50 answered %d with --max-receivers-per-sender 0", c.Status)}}
		}
		for i := 0; i < 24; i++ {
			c := connect(fmt.Sprintf("c%d", i), s.Code, fmt.Sprintf("r%d", i), "receiver")
			if c.conn == nil {
				return [][2]string{{"zero-is-not-unlimited", fmt.Sprintf("join %d answered %d with receiver and connection limits 0", i, c.Status)}}
			}
		}
		return nil
	}})
	return out
}
