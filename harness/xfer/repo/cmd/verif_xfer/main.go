//go:build verif

package main

import (
	"encoding/json"
	"fmt"
	"os"
	"sort"
	"strconv"
	"strings"
	"time"

	"github.com/sheerbytes/sheerbytes/internal/verif/vlib"
	vrt "github.com/sheerbytes/sheerbytes/internal/verif/vrt"
)

var res *vlib.Result

type replayT struct {
	Mode    string `json:"mode"`
	Case    Case   `json:"case"`
	Choices []int  `json:"choices"`
	Extra   string `json:"extra,omitempty"`
	// Cfg is the scheduler configuration of the execution (bounds phases differ in it); the
	// choice list is only meaningful under the same configuration.
	Cfg *vrt.Config `json:"cfg,omitempty"`
}

// withCfg records the configuration x ran under.
func (r replayT) withCfg(x *vrt.Exec) replayT {
	c := x.Config()
	r.Cfg = &c
	return r
}

func baseCfg() vrt.Config {
	cfg := vrt.DefaultConfig()
	cfg.LockPoints = false // mutex acquisitions are points only when contended (keeps D>=1 tractable)
	cfg.TimerFirst = true
	cfg.IdleHorizon = int64(60 * time.Second)
	cfg.MaxSteps = 300000
	return cfg
}

type stats struct {
	execs, nodes, steps int64
	outcomes            map[string]int64
	traces              map[uint64]struct{}
	incomplete          int
	maxPoints           int
	cases               int
}

func newStats() *stats { return &stats{outcomes: map[string]int64{}, traces: map[uint64]struct{}{}} }

func (st *stats) add(e *vrt.Explorer) {
	st.execs += e.Execs
	st.nodes += e.Nodes
	st.steps += e.Steps
	for k, v := range e.Outcomes {
		st.outcomes[k] += v
	}
	for t := range e.Traces {
		if len(st.traces) < 1<<20 {
			st.traces[t] = struct{}{}
		}
	}
	if !e.Complete {
		st.incomplete++
	}
	if e.MaxPoints > st.maxPoints {
		st.maxPoints = e.MaxPoints
	}
	for _, d := range e.Divergence {
		res.InfraError("replay divergence: %s", d)
	}
}

func (st *stats) finish() {
	res.EvalN(st.execs)
	res.States = st.nodes
	res.Trans = st.steps
	res.Validated = st.execs
	oc := map[string]any{}
	for k, v := range st.outcomes {
		oc[k] = float64(v)
	}
	res.Extra["outcomes"] = oc
	res.Extra["distinct_traces"] = float64(len(st.traces))
	res.Extra["cases"] = float64(st.cases)
	res.Extra["max_choice_points"] = float64(st.maxPoints)
	if st.incomplete > 0 {
		res.NotExhaustive(fmt.Sprintf("%d case explorations hit the time budget", st.incomplete))
		res.Extra["incomplete_explorations"] = float64(st.incomplete)
	}
}

// explore runs one prepared case within a deviation bound and hands every execution to visit.
func explore(st *stats, p *Prepared, env *Env, bound int, deadline time.Time, cfg vrt.Config, visit func(x *vrt.Exec, o *Outcome)) {
	exploreSharded(st, p, env, bound, deadline, cfg, false, visit)
}

// exploreSharded: with split=true every shard process takes its share of the level-1 subtrees of
// this one case (used for the expensive deviation bounds).
func exploreSharded(st *stats, p *Prepared, env *Env, bound int, deadline time.Time, cfg vrt.Config, split bool, visit func(x *vrt.Exec, o *Outcome)) {
	e := &vrt.Explorer{Cfg: cfg, Bound: bound, Deadline: deadline, Root: func() { runTransfer(p, env) }}
	if split {
		e.Shard, e.NShards = vlib.F.Shard, vlib.F.NShards
	}
	e.Visit = func(x *vrt.Exec) bool {
		visit(x, last)
		return true
	}
	e.Run()
	st.add(e)
}

func hangSig(x *vrt.Exec) map[string]any {
	return hangClass(x.Blocked)
}

func main() {
	res = vlib.Parse()
	scratch = os.Getenv("VERIF_SCRATCH")
	if scratch == "" {
		scratch, _ = os.MkdirTemp("/dev/shm", "xfer")
		defer os.RemoveAll(scratch)
	}
	mode := vlib.Arg("mode", "c03")
	res.Part = mode
	if vlib.F.Replay != "" {
		replayMode()
		res.Finish()
	}
	switch mode {
	case "c03":
		modeC03()
	case "c01":
		modeC01()
	case "c02":
		modeC02()
	case "c02r":
		modeC02R()
	case "c05":
		modeC05()
	case "c05s":
		modeC05S()
	case "c04":
		modeC04()
	case "c06":
		modeC06()
	case "c07":
		modeC07()
	case "c15":
		modeC15()
	case "c17":
		modeC17()
	default:
		res.InfraError("unknown mode %s", mode)
	}
	res.Finish()
}

func replayMode() {
	var art struct {
		Violation struct {
			Replay replayT `json:"replay"`
		} `json:"violation"`
	}
	if err := vlib.ReadJSON(vlib.F.Replay, &art); err != nil {
		res.InfraError("replay: %v", err)
		return
	}
	rp := art.Violation.Replay
	res.Part = rp.Mode
	if os.Getenv("VERIF_TRACE") != "" {
		tf, _ := os.Create("/tmp/sched_trace.log")
		vrt.TraceFn = func(l string) { fmt.Fprintln(tf, l) }
	}
	if rp.Mode == "c07" {
		var a Attack
		json.Unmarshal([]byte(rp.Extra), &a)
		x, err := vrt.Replay(baseCfg(), rp.Choices, func() { runAttack(a) })
		if err != nil {
			res.InfraError("%v", err)
			return
		}
		res.Eval()
		checkC07(a, x)
		return
	}
	if rp.Mode == "c17" {
		var cc C17Case
		json.Unmarshal([]byte(rp.Extra), &cc)
		ccfg := baseCfg()
		if rp.Cfg != nil {
			ccfg = *rp.Cfg
		}
		x, err := vrt.Replay(ccfg, rp.Choices, func() { runC17(cc) })
		if err != nil {
			res.InfraError("%v", err)
			return
		}
		res.Eval()
		fmt.Fprintf(os.Stderr, "replay c17 %s: outcome=%s err=%v wire=%v\n", cc, x.Outcome, c17cur.sendErr, c17cur.wire)
		checkC17(cc, x)
		return
	}
	if rp.Mode == "c05s" {
		var c FlushersCase
		json.Unmarshal([]byte(rp.Extra), &c)
		x, err := vrt.Replay(c05sCfg(), rp.Choices, func() { runFlushers(c) })
		if err != nil {
			res.InfraError("%v", err)
			return
		}
		res.Eval()
		checkFlushers(c, x)
		return
	}
	if rp.Mode == "c02r" {
		var a AbortCase
		json.Unmarshal([]byte(rp.Extra), &a)
		x, err := vrt.Replay(c02rCfg(), rp.Choices, func() { runAbort(a) })
		if err != nil {
			res.InfraError("%v", err)
			return
		}
		res.Eval()
		fmt.Fprintf(os.Stderr, "replay c02r %s: outcome=%s %s returned=%v err=%v\n", a, x.Outcome, x.Detail, c02rCur.returned, c02rCur.err)
		checkAbort(a, x)
		return
	}
	if rp.Mode == "c15" {
		var sc Script
		json.Unmarshal([]byte(rp.Extra), &sc)
		x, err := vrt.Replay(c15Cfg(), rp.Choices, func() { runScript(sc) })
		if err != nil {
			res.InfraError("%v", err)
			return
		}
		res.Eval()
		fmt.Fprintf(os.Stderr, "replay c15 %s: outcome=%s %s returned=%v err=%v\n", sc, x.Outcome, x.Detail, c15cur.returned, c15cur.err)
		checkC15(sc, x)
		return
	}
	p, err := prepare(rp.Case)
	if err != nil {
		res.InfraError("prepare: %v", err)
		return
	}
	if rp.Mode == "c04" {
		replayC04(p, rp)
		return
	}
	env := envFor(rp.Mode, p, rp.Extra)
	cfg := baseCfg()
	var fspec FaultSpec
	if rp.Mode == "c02" {
		json.Unmarshal([]byte(rp.Extra), &fspec)
		env, _ = c02Env(p, &fspec)
		cfg = c02Cfg()
	}
	var tamper Tamper
	if rp.Mode == "c06" {
		json.Unmarshal([]byte(rp.Extra), &tamper)
		env = c06Env(p, tamper)
	}
	var c05x c05Extra
	if rp.Mode == "c05" {
		json.Unmarshal([]byte(rp.Extra), &c05x)
		env = c05Env(p, c05x.Flusher, c05x.Fault)
		cfg = c05Cfg()
	}
	if rp.Cfg != nil {
		cfg = *rp.Cfg
	}
	wd := &wireDump{inner: env.Obs}
	env.Obs = wd
	x, err := vrt.Replay(cfg, rp.Choices, func() { runTransfer(p, env) })
	if err != nil {
		res.InfraError("%v", err)
		return
	}
	res.Eval()
	wd.print()
	fmt.Fprintf(os.Stderr, "replay: outcome=%s detail=%s\n  send: done=%v err=%v\n  recv: done=%v err=%v\n  tree: %s\n  steps=%d points=%d virtual-time=%v\n",
		x.Outcome, x.Detail, last.SendDone, last.SendErr, last.RecvDone, last.RecvErr, last.TreeDiff, x.Steps(), x.NPoints(), time.Duration(x.Clock()-1_700_000_000*1_000_000_000))
	switch rp.Mode {
	case "c03":
		checkC03(p, x, last)
	case "c01":
		checkC01(p, x, last)
	case "c02":
		checkC02(p, &fspec, x, last)
	case "c05":
		checkC05(p, x, last, c05x.Flusher, c05x.Fault)
	case "c06":
		checkC06(p, tamper, x, last)
	}
}

func envFor(mode string, p *Prepared, extra string) *Env {
	env := &Env{}
	if p.Case.Pre != "" {
		env.BeforeRun = func(p *Prepared, outDir string) { applyPre(p, outDir) }
	}
	return env
}

// ---- grids ----

func sizesFor(chunk uint32, k int) int64 { return int64(k) * int64(chunk) }

// treesByChunks enumerates multisets of per-file chunk counts (0..maxChunks) for 0..maxFiles files.
func treesByChunks(maxFiles, maxChunks int, chunk uint32) [][]Entry {
	var out [][]Entry
	var rec func(cur []int, start int)
	rec = func(cur []int, start int) {
		t := []Entry{}
		for i, k := range cur {
			t = append(t, Entry{Path: fmt.Sprintf("f%d.bin", i), Size: sizesFor(chunk, k)})
		}
		out = append(out, t)
		if len(cur) == maxFiles {
			return
		}
		for k := start; k <= maxChunks; k++ {
			rec(append(append([]int{}, cur...), k), k)
		}
	}
	rec(nil, 0)
	return out
}

func keyOf(c Case) string { return c.String() }

// ---- C03: every transfer between healthy peers completes ----

func checkC03(p *Prepared, x *vrt.Exec, o *Outcome) {
	rp := replayT{Mode: "c03", Case: p.Case, Choices: append([]int{}, x.Choices()...)}.withCfg(x)
	switch x.Outcome {
	case "ok":
	case "deadlock", "stall":
		res.Violate("hang", "xfer/c03", hangSig(x), fmt.Sprintf("%s: %s; blocked at %v", p.Case, x.Outcome, x.Blocked), rp)
		return
	case "panic":
		res.Violate("panic", "xfer/c03", map[string]any{"panic": x.Detail}, fmt.Sprintf("%s: panic %s", p.Case, x.Detail), rp)
		return
	case "exit":
		res.Violate("exit", "xfer/c03", map[string]any{"exit": x.Detail}, fmt.Sprintf("%s: %s", p.Case, x.Detail), rp)
		return
	default:
		res.InfraError("%s: outcome %s %s", p.Case, x.Outcome, x.Detail)
		return
	}
	if o.SendErr != nil || o.RecvErr != nil {
		res.Violate("failure", "xfer/c03", failureSig(o, p.Case),
			fmt.Sprintf("%s: healthy peers, but sender returned %v and receiver returned %v", p.Case, o.SendErr, o.RecvErr), rp)
	}
}

func nameTrees(chunk uint32) [][]Entry {
	long := strings.Repeat("n", 255)
	deep := strings.Repeat(strings.Repeat("d", 200)+"/", 4) + strings.Repeat("x", 1024-804) // 1024 bytes, components <= 255
	names := []string{"plain.txt", ".hidden", "with space.txt", "ünïcödé-日本.txt", "a..b", "..a", "a..", "back\\slash", long, deep, "bad\xff\xfeutf8", "sub/dir/file", "tab\tname", "-dash", "percent%41", "q?#&=.txt"}
	var out [][]Entry
	for _, n := range names {
		out = append(out, []Entry{{Path: n, Size: int64(chunk) + 1}})
	}
	return out
}

// d2set: the handful of configurations explored at deviation bound 2 (late duplicates under
// resume need the grace timer to fire first *and* a reordering).
func d2set(c Case, thorough bool) bool {
	n := 0
	for _, e := range c.Tree {
		n += int((e.Size + int64(c.Chunk) - 1) / int64(c.Chunk))
	}
	if c.Conns != 1 || c.Pre != "partial" {
		return false
	}
	if thorough {
		return true
	}
	return (len(c.Tree) == 1 && n == 3 && c.Streams == 2) || (len(c.Tree) == 2 && n == 2 && c.Streams == 1)
}

func modeC03() {
	res.Rule = "grid (files 0-3) x (chunks per file 0-3) x streams x connections x resume state, plus legal-name trees; every schedule within the deviation bound; an execution is non-trivial when it took at least one deviation or is the default run of a distinct configuration; distinct by (configuration, trace)"
	thorough := vlib.F.Tier == "thorough"
	st := newStats()
	budget := 170 * time.Second
	if thorough {
		budget = 28 * time.Minute
	}
	deadline := time.Now().Add(budget)
	const chunk = 4
	var cases []Case
	streams := []int{1, 2, 3, 4, 8}
	conns := []int{1, 2, 3}
	for _, tree := range treesByChunks(3, 3, chunk) {
		for _, s := range streams {
			for _, cn := range conns {
				for _, pre := range []string{"off", "", "partial", "complete", "firstchunk", "holes", "partial@8", "partial@2", "complete@8", "holes@2", "complete@3", "holes@3", "holes@5"} {
					c := Case{Tree: tree, Chunk: chunk, Streams: s, Conns: cn, Resume: pre != "off", NoRootDir: true}
					if pre != "off" {
						c.Pre = pre
					}
					if pre != "off" && pre != "" && (len(tree) == 0 || tree[0].Size == 0) {
						continue
					}
					if strings.Contains(pre, "@") && (s > 2 || cn > 1) {
						continue // metadata of a run with another chunk size: reduced slice
					}
					cases = append(cases, c)
					if pre == "partial" || pre == "complete" || pre == "firstchunk" || pre == "holes" {
						// a path whose round trip exceeds the sender's 300 ms resume grace period: the
						// sender starts blind and the receiver sees late duplicates
						c.LatencyMs = 200
						cases = append(cases, c)
					}
				}
			}
		}
	}
	// directory-only and nested trees
	for _, tree := range [][]Entry{
		{{Path: "emptydir", Size: -1}},
		{{Path: "d1", Size: -1}, {Path: "d1/d2", Size: -1}, {Path: "d1/d2/f", Size: 5}},
		{{Path: "d1/e", Size: 0}, {Path: "top", Size: 9}},
	} {
		for _, s := range []int{1, 2} {
			for _, nr := range []bool{true, false} {
				cases = append(cases, Case{Tree: tree, Chunk: chunk, Streams: s, Conns: 1, Resume: true, NoRootDir: nr})
			}
		}
	}
	for _, tree := range nameTrees(chunk) {
		cases = append(cases, Case{Tree: tree, Chunk: chunk, Streams: 1, Conns: 1, Resume: true, NoRootDir: true})
	}
	// tight set for the deviation bound
	tight := map[string]bool{}
	for _, c := range cases {
		nchunks := 0
		for _, e := range c.Tree {
			nchunks += int((e.Size + chunk - 1) / chunk)
		}
		if len(c.Tree) <= 2 && nchunks <= 3 && c.Streams <= 2 && c.Conns == 1 {
			tight[keyOf(c)] = true
		}
	}
	d1 := 1
	n := 0
	if os.Getenv("VERIF_LOCKPHASE") == "only" {
		cases = nil // debugging aid: go straight to the lock-level phase
		deadline = time.Now().Add(25 * time.Minute)
	}
	if f := os.Getenv("VERIF_ONLYCASE"); f != "" {
		// debugging aid: only the configurations whose description contains f
		var keep []Case
		for _, c := range cases {
			if strings.Contains(c.String(), f) {
				keep = append(keep, c)
			}
		}
		cases = keep
	}
	for i, c := range cases {
		if !vlib.Mine(i) {
			continue
		}
		p, err := prepare(c)
		if err != nil {
			// a tree that cannot even be created on this file system is not a legal input here
			res.InfraError("cannot prepare %.80s: %.120s", c.String(), err.Error())
			continue
		}
		n++
		env := envFor("c03", p, "")
		bound := 0
		if tight[keyOf(c)] {
			bound = d1
		}
		cfg := baseCfg()
		// on the tight set "demote the running thread" is a deviation too: one of them keeps a
		// thread out of the way while the others run on, however many steps that takes
		cfg.Demote = bound > 0
		if bound > 0 {
			// and its sleeping variant: the demoted thread is also late by up to 400 ms of virtual
			// time, long enough for the sender's 300 ms resume grace period to run out meanwhile
			cfg.DemoteSleep = int64(400 * time.Millisecond)
		}
		explore(st, p, env, bound, deadline, cfg, func(x *vrt.Exec, o *Outcome) {
			checkC03(p, x, o)
			res.Nontrivial(fmt.Sprintf("%s|%x", keyOf(c), x.Trace()))
		})
		res.SampleSpread(int64(n), c.String())
		os.RemoveAll(p.SrcRoot)
	}
	// phase 2: deviation bound 2 on a handful of configurations, every shard takes a slice of each
	nd2 := 0
	for _, c := range cases {
		if !tight[keyOf(c)] || !d2set(c, thorough) {
			continue
		}
		p, err := prepare(c)
		if err != nil {
			continue
		}
		nd2++
		env := envFor("c03", p, "")
		before := st.execs
		exploreSharded(st, p, env, 2, deadline, baseCfg(), true, func(x *vrt.Exec, o *Outcome) {
			checkC03(p, x, o)
			res.Nontrivial(fmt.Sprintf("D2|%s|%x", keyOf(c), x.Trace()))
		})
		res.Extra[fmt.Sprintf("d2_execs_case%d", nd2)] = float64(st.execs - before)
		os.RemoveAll(p.SrcRoot)
	}
	res.Extra["d2_cases"] = fmt.Sprint(nd2)
	// phase 3 (thorough, or lockphase=1): the smallest transfers once more with mutex acquisitions
	// as scheduling points and the demote deviation at bound 2 - check-then-act sequences on
	// mutex-protected state (registries, counters) are out of reach without lock points
	if thorough || os.Getenv("VERIF_LOCKPHASE") != "" {
		nl := 0
		for _, c := range []Case{
			{Tree: []Entry{{Path: "a", Size: 4}}, Chunk: 4, Streams: 1, Conns: 1, Resume: true, NoRootDir: true},
			{Tree: []Entry{{Path: "a", Size: 8}}, Chunk: 4, Streams: 2, Conns: 1, Resume: false, NoRootDir: true},
			{Tree: []Entry{{Path: "a", Size: 4}, {Path: "b", Size: 0}}, Chunk: 4, Streams: 1, Conns: 1, Resume: true, NoRootDir: true},
		} {
			p, err := prepare(c)
			if err != nil {
				continue
			}
			nl++
			env := envFor("c03", p, "")
			cfg := baseCfg()
			cfg.LockPoints = true
			cfg.Demote = true
			before := st.execs
			exploreSharded(st, p, env, 2, deadline, cfg, true, func(x *vrt.Exec, o *Outcome) {
				checkC03(p, x, o)
				res.Nontrivial(fmt.Sprintf("L2|%s|%x", keyOf(c), x.Trace()))
			})
			res.Extra[fmt.Sprintf("lock_phase_execs_case%d", nl)] = float64(st.execs - before)
			os.RemoveAll(p.SrcRoot)
		}
	}
	st.cases = n
	res.Extra["deviation_bound"] = "grid D=0; tight set D=" + strconv.Itoa(d1)
	st.finish()
}

// ---- C01: success => identical tree ----

func checkC01(p *Prepared, x *vrt.Exec, o *Outcome) {
	if x.Outcome != "ok" || o.SendErr != nil || o.RecvErr != nil {
		return // C03's business
	}
	if o.TreeDiff != "" {
		cls := o.TreeDiff
		if i := strings.Index(cls, ";"); i > 0 {
			cls = cls[:i]
		}
		// class: kind of first difference without names
		kind := "content"
		switch {
		case strings.HasPrefix(cls, "missing file"):
			kind = "missing-file"
		case strings.HasPrefix(cls, "missing dir"):
			kind = "missing-dir"
		case strings.HasPrefix(cls, "unexpected"):
			kind = "unexpected-entry"
		case strings.Contains(cls, "length"):
			kind = "length"
		}
		res.Violate("mismatch", "xfer/c01", map[string]any{"class": kind, "pre": p.Case.Pre},
			fmt.Sprintf("%s: both sides report success but the tree differs: %s", p.Case, o.TreeDiff),
			replayT{Mode: "c01", Case: p.Case, Choices: append([]int{}, x.Choices()...)}.withCfg(x))
	}
}

func modeC01() {
	res.Rule = "trees with sizes around chunk boundaries x chunk size x streams x connections x resume x root-dir mode x scan mode; every schedule within the deviation bound; checked only when both sides report success; non-trivial = successful execution; distinct by (configuration, trace)"
	thorough := vlib.F.Tier == "thorough"
	st := newStats()
	budget := 170 * time.Second
	if thorough {
		budget = 28 * time.Minute
	}
	deadline := time.Now().Add(budget)
	var cases []Case
	for _, chunk := range []uint32{1, 4} {
		c := int64(chunk)
		sizes := []int64{0, 1, c - 1, c, c + 1, 2 * c, 2*c + 1, 3*c - 1}
		seen := map[int64]bool{}
		var us []int64
		for _, s := range sizes {
			if s >= 0 && !seen[s] {
				seen[s] = true
				us = append(us, s)
			}
		}
		sort.Slice(us, func(i, j int) bool { return us[i] < us[j] })
		// one file of every size; pairs of sizes; a nested tree
		var trees [][]Entry
		for _, s := range us {
			trees = append(trees, []Entry{{Path: "a.bin", Size: s}})
		}
		for i, s1 := range us {
			for _, s2 := range us[i:] {
				trees = append(trees, []Entry{{Path: "a.bin", Size: s1}, {Path: "sub/b.bin", Size: s2}})
			}
		}
		trees = append(trees, []Entry{{Path: "e", Size: -1}, {Path: "d/deep/x", Size: 2*c + 1}, {Path: "d/y", Size: 0}, {Path: "z", Size: c}})
		trees = append(trees, []Entry{})
		for _, tree := range trees {
			for _, s := range []int{1, 2, 4} {
				for _, cn := range []int{1, 2} {
					for _, pre := range []string{"off", "", "partial", "complete", "holes", "firstchunk", "stale-longer", "stale-shorter", "partial@8", "partial@2", "complete@8", "holes@2", "complete@3", "holes@3", "holes@5"} {
						if pre != "off" && pre != "" && (len(tree) == 0 || tree[0].Size <= 0) {
							continue
						}
						if strings.Contains(pre, "@") && (s > 2 || cn > 1 || strings.HasSuffix(pre, fmt.Sprint("@", chunk))) {
							continue // metadata of a run with another chunk size: reduced slice
						}
						for _, nr := range []bool{true, false} {
							for _, sp := range []bool{false, true} {
								if (nr == false || sp) && !(s == 2 && cn == 1) {
									continue // root-dir and scan modes on a reduced slice
								}
								cs := Case{Tree: tree, Chunk: chunk, Streams: s, Conns: cn, Resume: pre != "off", NoRootDir: nr, ScanPaths: sp}
								if pre != "off" {
									cs.Pre = pre
								}
								cases = append(cases, cs)
								if (pre == "partial" || pre == "holes" || pre == "firstchunk" || pre == "complete") && nr && !sp {
									cs.LatencyMs = 200 // the sender starts blind: late duplicates
									cases = append(cases, cs)
								}
							}
						}
					}
				}
			}
		}
	}
	// the chunk size changes between files: the sender resolves its parameters once at the start
	// and once per file, and every file's geometry must follow the size announced for that file
	for _, seq := range [][]uint32{{4, 8}, {8, 4}, {4, 4, 2}, {2, 5, 3}, {3, 3, 3, 7}} {
		for _, s := range []int{1, 2} {
			for _, cn := range []int{1, 2} {
				for _, rs := range []bool{false, true} {
					cases = append(cases, Case{Tree: []Entry{{Path: "a.bin", Size: 9}, {Path: "b.bin", Size: 13}, {Path: "sub/c.bin", Size: 7}}, Chunk: seq[0], ChunkSeq: seq, Streams: s, Conns: cn, Resume: rs, NoRootDir: true})
				}
			}
		}
	}
	n := 0
	for i, c := range cases {
		if !vlib.Mine(i) {
			continue
		}
		p, err := prepare(c)
		if err != nil {
			res.InfraError("prepare %s: %v", c, err)
			continue
		}
		n++
		env := envFor("c01", p, "")
		nchunks := 0
		for _, e := range c.Tree {
			if e.Size > 0 {
				nchunks += int((e.Size + int64(c.Chunk) - 1) / int64(c.Chunk))
			}
		}
		bound := 0
		if nchunks >= 1 && nchunks <= 4 && c.Streams == 2 && c.Conns == 1 && c.NoRootDir && !c.ScanPaths {
			bound = 1
		}
		explore(st, p, env, bound, deadline, baseCfg(), func(x *vrt.Exec, o *Outcome) {
			checkC01(p, x, o)
			if x.Outcome == "ok" && o.SendErr == nil && o.RecvErr == nil {
				res.Nontrivial(fmt.Sprintf("%s|%x", keyOf(c), x.Trace()))
			}
		})
		res.SampleSpread(int64(n), c.String())
		os.RemoveAll(p.SrcRoot)
	}
	// thorough: two deviations - demoting a thread (plain and asleep for 400 ms) among them - on
	// the tightest configurations (one or two files, at most three chunks, two streams, chunk
	// size 4; fresh, partial, holed, first-chunk-only and other-chunk-size resume states), every
	// shard taking a slice of each
	nd2 := 0
	if thorough {
		for _, c := range cases {
			nchunks := 0
			for _, e := range c.Tree {
				if e.Size > 0 {
					nchunks += int((e.Size + int64(c.Chunk) - 1) / int64(c.Chunk))
				}
			}
			if c.Chunk != 4 || nchunks < 2 || nchunks > 3 || len(c.Tree) > 2 || c.Streams != 2 || c.Conns != 1 || !c.NoRootDir || c.ScanPaths || c.LatencyMs != 0 || len(c.ChunkSeq) > 0 {
				continue
			}
			switch c.Pre {
			case "", "partial", "holes", "firstchunk", "partial@8", "holes@2":
			default:
				continue
			}
			if !c.Resume {
				continue
			}
			p, err := prepare(c)
			if err != nil {
				continue
			}
			nd2++
			cfg := baseCfg()
			cfg.Demote = true
			cfg.DemoteSleep = int64(400 * time.Millisecond)
			exploreSharded(st, p, envFor("c01", p, ""), 2, deadline, cfg, true, func(x *vrt.Exec, o *Outcome) {
				checkC01(p, x, o)
				if x.Outcome == "ok" && o.SendErr == nil && o.RecvErr == nil {
					res.Nontrivial(fmt.Sprintf("D2|%s|%x", keyOf(c), x.Trace()))
				}
			})
			os.RemoveAll(p.SrcRoot)
		}
	}
	st.cases = n
	res.Extra["deviation_bound"] = "grid D=0; 2-stream cases with 1-4 chunks D=1"
	if thorough {
		res.Extra["deviation_bound"] = fmt.Sprintf("grid D=0; 2-stream cases with 1-4 chunks D=1; %d tightest configurations D=2 with demotion", nd2)
	}
	st.finish()
}
