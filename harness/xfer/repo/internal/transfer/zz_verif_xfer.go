//go:build verif

package transfer

import "github.com/sheerbytes/sheerbytes/pkg/manifest"

// Exports for the transfer harness (overlay only).

func VerifReadControlMessage(s Stream) (byte, any, error) { return readControlMessage(s) }

const (
	VerifTypeFileDone       = controlTypeFileDone
	VerifTypeFileResumeInfo = controlTypeFileResumeInfo
)

// VerifBitmap returns a copy of the sidecar's bitmap bytes.
func (s *Sidecar) VerifBitmap() []byte { return s.MarshalBitmap() }

// VerifFileKey exposes the file key (hash of id or rel_path) used on the wire.
func VerifFileKey(it manifest.FileItem) uint64 { return fileKeyForItem(it) }

func VerifReadControlHeader(s Stream) (manifest.Manifest, error) { return readControlHeader(s) }
