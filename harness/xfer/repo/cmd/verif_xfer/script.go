//go:build verif

package main

import (
	"context"
	"encoding/binary"
	"encoding/json"
	"hash/crc32"

	"github.com/sheerbytes/sheerbytes/internal/transfer"
	"github.com/sheerbytes/sheerbytes/pkg/manifest"
)

// Raw encoders of the wire format (the repository's own writers validate their arguments, a
// hostile peer does not). They are checked against the repository's decoder for benign values by
// the C15 mode's self test.

func be16(v uint16) []byte { b := make([]byte, 2); binary.BigEndian.PutUint16(b, v); return b }
func be32(v uint32) []byte { b := make([]byte, 4); binary.BigEndian.PutUint32(b, v); return b }
func be64(v uint64) []byte { b := make([]byte, 8); binary.BigEndian.PutUint64(b, v); return b }

func cat(parts ...[]byte) []byte {
	var out []byte
	for _, p := range parts {
		out = append(out, p...)
	}
	return out
}

func encHeader(m manifest.Manifest) []byte {
	j, _ := json.Marshal(m)
	return cat([]byte("SBC1"), be32(uint32(len(j))), j)
}

func encHeaderRaw(jsonBytes []byte) []byte {
	return cat([]byte("SBC1"), be32(uint32(len(jsonBytes))), jsonBytes)
}

func encDataStreams(n uint16) []byte { return cat([]byte{0x17}, be16(n)) }

func encFileBegin(rel string, size uint64, chunk uint32, key uint64, hashAlg byte) []byte {
	return cat([]byte{0x10}, be16(uint16(len(rel))), []byte(rel), be64(size), be32(chunk), be64(key), []byte{hashAlg}, be16(0), be16(0), be32(0), be32(0))
}

func encResumeRequest(id string, key uint64) []byte {
	return cat([]byte{0x15}, be16(uint16(len(id))), []byte(id), be64(key))
}

func encFileEnd(key uint64) []byte { return cat([]byte{0x12}, be64(key), be32(0)) }
func encEnd() []byte               { return []byte{0xFF} }

func encFileDone(key uint64, ok bool, msg string) []byte {
	b := byte(0)
	if ok {
		b = 1
	}
	return cat([]byte{0x13}, be64(key), []byte{b}, be16(uint16(len(msg))), []byte(msg))
}

func encResumeInfo(id string, key uint64, total uint32, bitmap []byte, lastChunk uint32, lastHash uint64) []byte {
	return cat([]byte{0x14}, be16(uint16(len(id))), []byte(id), be64(key), be32(total), be32(uint32(len(bitmap))), bitmap, be32(lastChunk), be64(lastHash))
}

var castagnoli = crc32.MakeTable(crc32.Castagnoli)

func encChunk(key uint64, idx uint32, data []byte) []byte {
	return cat(be64(key), be32(idx), be32(uint32(len(data))), be32(crc32.Checksum(data, castagnoli)), data)
}

func encChunkRaw(key uint64, idx uint32, length uint32, crc uint32, data []byte) []byte {
	return cat(be64(key), be32(idx), be32(length), be32(crc), data)
}

func fileKey(it manifest.FileItem) uint64 { return transfer.VerifFileKey(it) }

// scriptedSender opens a control stream and n data streams on conn and returns them.
func openStreams(ctx context.Context, conn transfer.Conn, n int) (transfer.Stream, []transfer.Stream, error) {
	ctrl, err := conn.OpenStream(ctx)
	if err != nil {
		return nil, nil, err
	}
	var ds []transfer.Stream
	for i := 0; i < n; i++ {
		s, err := conn.OpenStream(ctx)
		if err != nil {
			return ctrl, ds, err
		}
		ds = append(ds, s)
	}
	return ctrl, ds, nil
}
