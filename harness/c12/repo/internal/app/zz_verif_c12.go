//go:build verif

package app

import (
	"context"
	"io"
	"log/slog"
	"sort"
	"time"

	"github.com/sheerbytes/sheerbytes/pkg/protocol"
)

// Overlay-only constructor and accessors for the C12 harness: a SnapshotSender built as the
// repository's own tests build it (plus a discard logger: the failure path logs).

func VerifNewSender(maxReceivers int, ttl time.Duration, now func() time.Time, transferFn func(context.Context, string) error) *SnapshotSender {
	return &SnapshotSender{
		logger:      slog.New(slog.NewTextHandler(io.Discard, nil)),
		maxRecv:     maxReceivers,
		receiverTTL: ttl,
		receivers:   make(map[string]*ReceiverState),
		active:      make(map[string]*transferSlot),
		signalCh:    make(map[string]chan protocol.Envelope),
		now:         now,
		exitFn:      func(int) {},
		closeConn:   func() {},
		transferFn:  transferFn,
	}
}

func (s *SnapshotSender) VerifJoined(p string) { s.handlePeerJoined(p) }

// VerifAccept does what handleEnvelope does for a manifest_accept.
func (s *SnapshotSender) VerifAccept(ctx context.Context, p string) {
	s.handleManifestAccept(p, protocol.ManifestAccept{})
	s.maybeStartTransfers(ctx)
}
func (s *SnapshotSender) VerifLeft(p string) { s.handlePeerLeft(p) }
func (s *SnapshotSender) VerifCleanup()      { s.cleanup() }

type VerifSnap struct {
	Status   map[string]string
	LastSeen map[string]time.Time
	Queue    []string
	Active   []string
}

func (s *SnapshotSender) VerifSnapshot() VerifSnap {
	s.mu.Lock()
	defer s.mu.Unlock()
	sn := VerifSnap{Status: map[string]string{}, LastSeen: map[string]time.Time{}}
	for p, st := range s.receivers {
		sn.Status[p] = st.Status
		sn.LastSeen[p] = st.LastSeen
	}
	sn.Queue = append([]string{}, s.queue...)
	for p := range s.active {
		sn.Active = append(sn.Active, p)
	}
	sort.Strings(sn.Active)
	return sn
}
