//go:build verif

package main

import (
	"context"
	"fmt"
	"hash/crc32"
	"os"
	"sort"
	"strings"
	"time"

	"github.com/sheerbytes/sheerbytes/internal/transfer"
	quic "github.com/sheerbytes/sheerbytes/internal/verif/venv/vquic"
	"github.com/sheerbytes/sheerbytes/internal/verif/vlib"
	vrt "github.com/sheerbytes/sheerbytes/internal/verif/vrt"
)

// ---- C17: each needed chunk and each file is dispatched exactly once, then one FileEnd ----
//
// The real SendManifestMultiStream runs against a scripted, recording receiver. Probes at entry /
// exit of sendFileState.nextChunkToSend, markChunkDone and trySendEnd (inserted by the instrumenter)
// see the live state at every hand-out; the wire observer sees every FileBegin / FileEnd / chunk
// frame as it is written.

type C17Case struct {
	Chunks  []int  `json:"chunks"`  // chunks per file
	Streams int    `json:"streams"` // workers
	Bitmap  []int  `json:"bitmap"`  // per file: bit set of chunks the receiver reports present
	Hash    string `json:"hash"`    // right | wrong | unknown | none(no verification point)
	Tail    uint32 `json:"tail"`
	Delay   int    `json:"delay_ms"` // the scripted receiver answers the resume request after this long
	NoAns   bool   `json:"no_answer"`
	// Small: small-file threshold of the sender in bytes (0 = default, every file of the harness
	// is "small"); with 2 the multi-chunk files go through the scheduler's weighted path
	Small int64 `json:"small_threshold,omitempty"`
}

func (c C17Case) String() string {
	sm := ""
	if c.Small > 0 {
		sm = fmt.Sprintf(" small-threshold=%d", c.Small)
	}
	return fmt.Sprintf("chunks=%v workers=%d bitmap=%v hash=%s tail=%d delay=%dms noanswer=%v%s", c.Chunks, c.Streams, c.Bitmap, c.Hash, c.Tail, c.Delay, c.NoAns, sm)
}

type handout struct {
	key    uint64
	idx    uint32
	resend bool // a re-send was pending when it was taken
	bad    string
}

type c17Rec struct {
	handouts    []handout
	taken       map[uint64]map[uint32]int
	wire        []string // "FB key", "FE key", "CH key idx" in the order the writes completed
	chunkBytes  map[string]int
	verifyFell  map[uint64]int // wire position when verifyPending was last seen true
	viol        []string
	violCls     []string
	partial     map[string][]byte // reassembly of control records written by the sender
	dataPartial map[string][]byte
	sendErr     error
	returned    bool
	lastVerify  map[uint64]bool
	// verifChunk: per file key, the chunk whose hash the scripted receiver reports as wrong
	// (-1 / absent: no failed verification in this case)
	verifChunk map[uint64]int
}

var c17cur *c17Rec

func (r *c17Rec) violate(cls, msg string) {
	for _, c := range r.violCls {
		if c == cls {
			return
		}
	}
	r.violCls = append(r.violCls, cls)
	r.viol = append(r.viol, msg)
}

// emitHook sees the probes.
func c17Hook(kind string, args []any) {
	r := c17cur
	if r == nil || len(args) == 0 {
		return
	}
	in, ok := transfer.VerifSendState(args[0])
	if !ok {
		return
	}
	switch kind {
	case "enter:internal/transfer.sendFileState.nextChunkToSend":
		// remember what was pending on entry
		r.lastVerify[in.Key] = in.ResendPending
	case "exit:internal/transfer.sendFileState.nextChunkToSend":
		if len(args) < 4 {
			return
		}
		idx, _ := args[1].(uint32)
		okv, _ := args[3].(bool)
		if !okv {
			return
		}
		h := handout{key: in.Key, idx: idx, resend: r.lastVerify[in.Key]}
		// The probes sit outside the method's own lock: the verdict that sets the re-send can
		// land between the entry snapshot and the decision taken under the lock. A hand-out of
		// the chunk that failed verification, with a present bit and nothing pending any more
		// at exit, is that re-send - not a present chunk leaking through the normal path.
		if vc, ok := r.verifChunk[in.Key]; ok && !h.resend && int(idx) == vc && !in.ResendPending && in.PlanKnown &&
			int(idx) < len(in.Present) && in.Present[idx] && idx < in.ForceSendFrom {
			h.resend = true
		}
		if r.taken[in.Key] == nil {
			r.taken[in.Key] = map[uint32]int{}
		}
		if !h.resend && r.taken[in.Key][idx] >= 1 {
			// Second hand-out of a chunk. The entry snapshot cannot tell the two paths apart when
			// the verdict lands between the snapshot and the method's lock (with mutex points the
			// re-send may even be the *first* of the two), so the rule counts instead: the chunk
			// that failed verification may go out once more than the others - once. Any further
			// hand-out, or a second hand-out of any other chunk, is a violation.
			if vc, ok := r.verifChunk[in.Key]; ok && int(idx) == vc {
				already := false
				for _, q := range r.handouts {
					if q.key == in.Key && q.resend {
						already = true
					}
				}
				if !already {
					h.resend = true
				}
			}
		}
		if !h.resend {
			r.taken[in.Key][idx]++
			if r.taken[in.Key][idx] > 1 {
				r.violate("chunk-handed-out-twice", fmt.Sprintf("chunk %d handed out %d times by the normal path", idx, r.taken[in.Key][idx]))
			}
			if in.PlanKnown && int(idx) < len(in.Present) && in.Present[idx] && idx < in.ForceSendFrom {
				r.violate("present-chunk-sent-after-report", fmt.Sprintf("chunk %d is reported present below the force-send index %d, the report is known, yet it was handed out", idx, in.ForceSendFrom))
			}
		}
		r.handouts = append(r.handouts, h)
	}
}

type c17Obs struct{ r *c17Rec }

func (o *c17Obs) StreamOpened(s *quic.Stream) {}
func (o *c17Obs) BeforeWrite(s *quic.Stream, p []byte) (int, quic.Fault) {
	k := streamKey(s)
	if !strings.Contains(k, "/c:") {
		return len(p), quic.NoFault
	}
	r := o.r
	if strings.HasSuffix(k, ":0") {
		// control stream of the sender: reassemble records (after the header)
		r.partial[k] = append(r.partial[k], p...)
		r.parseControl(k)
	} else {
		r.dataPartial[k] = append(r.dataPartial[k], p...)
		r.parseData(k)
	}
	return len(p), quic.NoFault
}

func (r *c17Rec) parseControl(k string) {
	b := r.partial[k]
	if r.chunkBytes["hdr:"+k] == 0 {
		if len(b) < 8 {
			return
		}
		l := int(b[4])<<24 | int(b[5])<<16 | int(b[6])<<8 | int(b[7])
		if len(b) < 8+l {
			return
		}
		b = b[8+l:]
		r.chunkBytes["hdr:"+k] = 1
	}
	for len(b) > 0 {
		need := 0
		switch b[0] {
		case 0x17:
			need = 3
		case 0x10:
			if len(b) < 3 {
				need = 1 << 30
				break
			}
			pl := int(b[1])<<8 | int(b[2])
			need = 3 + pl + 8 + 4 + 8 + 1 + 2 + 2 + 4 + 4
			if len(b) >= need {
				key := be64dec(b[3+pl+12:])
				r.wire = append(r.wire, fmt.Sprintf("FB %d", key))
			}
		case 0x15:
			if len(b) < 3 {
				need = 1 << 30
				break
			}
			il := int(b[1])<<8 | int(b[2])
			need = 3 + il + 8
		case 0x12:
			need = 13
			if len(b) >= need {
				r.wire = append(r.wire, fmt.Sprintf("FE %d", be64dec(b[1:])))
			}
		case 0xFF:
			need = 1
			if len(b) >= 1 {
				r.wire = append(r.wire, "END")
			}
		default:
			need = 1 << 30
		}
		if len(b) < need {
			break
		}
		b = b[need:]
	}
	r.partial[k] = b
}

func be64dec(b []byte) uint64 {
	var v uint64
	for i := 0; i < 8; i++ {
		v = v<<8 | uint64(b[i])
	}
	return v
}

func (r *c17Rec) parseData(k string) {
	b := r.dataPartial[k]
	for len(b) >= 20 {
		l := int(b[12])<<24 | int(b[13])<<16 | int(b[14])<<8 | int(b[15])
		if len(b) < 20+l {
			break
		}
		key := be64dec(b)
		idx := uint32(b[8])<<24 | uint32(b[9])<<16 | uint32(b[10])<<8 | uint32(b[11])
		r.wire = append(r.wire, fmt.Sprintf("CH %d %d", key, idx))
		b = b[20+l:]
	}
	r.dataPartial[k] = b
}

var c17prep = map[string]*Prepared{}

func runC17(c C17Case) {
	r := &c17Rec{taken: map[uint64]map[uint32]int{}, chunkBytes: map[string]int{}, verifyFell: map[uint64]int{}, partial: map[string][]byte{}, dataPartial: map[string][]byte{}, lastVerify: map[uint64]bool{}}
	c17cur = r
	vrt.EmitHook = c17Hook
	var tree []Entry
	for i, n := range c.Chunks {
		size := int64(n) * 4
		if n > 0 {
			size -= 1
		}
		tree = append(tree, Entry{Path: fmt.Sprintf("f%d", i), Size: size})
	}
	pk := fmt.Sprint(c.Chunks, c.Streams, c.Tail, c.Small)
	p := c17prep[pk]
	if p == nil {
		var err error
		p, err = prepare(Case{Tree: tree, Chunk: 4, Streams: c.Streams, Conns: 1, Resume: true, NoRootDir: true, Tail: c.Tail, SmallThr: c.Small})
		if err != nil {
			panic(err)
		}
		c17prep[pk] = p
	}
	items := fileItems(p)
	r.verifChunk = map[uint64]int{}
	if c.Hash == "wrong" && !c.NoAns {
		for fi, it := range items {
			bits, highest := 0, -1
			if fi < len(c.Bitmap) {
				bits = c.Bitmap[fi]
			}
			for i := 0; i < c.Chunks[fi]; i++ {
				if bits&(1<<uint(i)) != 0 {
					highest = i
				}
			}
			if highest >= 0 {
				r.verifChunk[fileKey(it)] = highest
			}
		}
	}
	cl, sv := quic.NewPair("conn0")
	obs := &c17Obs{r}
	cl.Obs, sv.Obs = obs, obs
	sconn, rconn := wrapPair(cl, sv)
	var wg vrt.WaitGroup
	wg.Add(2)
	vrt.GoNamed("S", "S", func() {
		defer wg.Done()
		r.sendErr = transfer.SendManifestMultiStream(context.Background(), sconn, p.Root, p.M, sendOpts(p))
		r.returned = true
		sconn.Close()
	})
	vrt.GoNamed("script", "R", func() {
		defer wg.Done()
		ctx := context.Background()
		ctrl, err := rconn.AcceptStream(ctx)
		if err != nil {
			return
		}
		vrt.GoNamed("drain", "R", func() {
			for {
				s, err := rconn.AcceptStream(ctx)
				if err != nil {
					return
				}
				vrt.GoNamed("drain1", "R", func() {
					buf := make([]byte, 4096)
					for {
						if _, err := s.Read(buf); err != nil {
							return
						}
					}
				})
			}
		})
		if _, err := transfer.VerifReadControlHeader(ctrl); err != nil {
			return
		}
		for {
			typ, msg, err := transfer.VerifReadControlMessage(ctrl)
			if err != nil {
				break
			}
			switch typ {
			case 0x15:
				rq := msg.(transfer.ResumeRequest)
				if c.NoAns {
					continue
				}
				fi := -1
				for i, it := range items {
					if it.ID == rq.FileID {
						fi = i
					}
				}
				if fi < 0 {
					continue
				}
				n := c.Chunks[fi]
				bits := 0
				if fi < len(c.Bitmap) {
					bits = c.Bitmap[fi]
				}
				bm := make([]byte, (n+7)/8)
				highest := -1
				for i := 0; i < n; i++ {
					if bits&(1<<uint(i)) != 0 {
						bm[i/8] |= 1 << uint(i%8)
						highest = i
					}
				}
				lv := uint32(n)
				var lh uint64
				if highest >= 0 && c.Hash != "none" {
					lv = uint32(highest)
					data := p.Files[items[fi].RelPath]
					lo, hi := highest*4, highest*4+4
					if hi > len(data) {
						hi = len(data)
					}
					lh = uint64(crc32.Checksum(data[lo:hi], castagnoli))
					switch c.Hash {
					case "wrong":
						lh ^= 0x5555
					case "unknown":
						lh = ^uint64(0)
					}
				}
				answer := encResumeInfo(rq.FileID, rq.StreamID, uint32(n), bm, lv, lh)
				if c.Delay > 0 {
					d := time.Duration(c.Delay) * time.Millisecond
					vrt.GoNamed("late-answer", "R", func() { vrt.Sleep(d); ctrl.Write(answer) })
				} else {
					ctrl.Write(answer)
				}
			case 0x12:
				fe := msg.(transfer.FileEnd)
				ctrl.Write(encFileDone(fe.StreamID, true, ""))
			case 0xFF:
				ctrl.Close()
				return
			}
		}
	})
	wg.Wait()
	rconn.Close()
}

func checkC17(c C17Case, x *vrt.Exec) {
	r := c17cur
	rp := replayT{Mode: "c17", Choices: append([]int{}, x.Choices()...), Extra: vlib.JSON(c)}.withCfg(x)
	if x.Outcome != "ok" {
		if x.Outcome == "panic" {
			res.Violate("panic", "xfer/c17", map[string]any{"panic": x.Detail}, fmt.Sprintf("%s: panic %s", c, x.Detail), rp)
		} else if x.Outcome == "deadlock" || x.Outcome == "stall" {
			res.Violate("hang", "xfer/c17", hangSig(x), fmt.Sprintf("%s: sender does not finish (%s): %v", c, x.Outcome, x.Blocked), rp)
		}
		return
	}
	// wire-level oracle
	p := c17prep[fmt.Sprint(c.Chunks, c.Streams, c.Tail, c.Small)]
	items := fileItems(p)
	for fi, it := range items {
		key := fileKey(it)
		n := c.Chunks[fi]
		fb, fe := 0, 0
		fePos := -1
		lastCH := -1
		sent := map[uint32]int{}
		for pos, w := range r.wire {
			var k uint64
			var idx uint32
			if _, err := fmt.Sscanf(w, "FB %d", &k); err == nil && k == key {
				fb++
			} else if _, err := fmt.Sscanf(w, "FE %d", &k); err == nil && k == key {
				fe++
				if fePos < 0 {
					fePos = pos
				}
			} else if _, err := fmt.Sscanf(w, "CH %d %d", &k, &idx); err == nil && k == key {
				sent[idx]++
				lastCH = pos
			}
		}
		if r.sendErr != nil {
			continue
		}
		if fb != 1 {
			r.violate("file-begun-not-once", fmt.Sprintf("file %d: %d FileBegin records", fi, fb))
		}
		if fe != 1 {
			r.violate("fileend-not-once", fmt.Sprintf("file %d: %d FileEnd records", fi, fe))
		}
		if fePos >= 0 && lastCH > fePos {
			r.violate("fileend-before-last-chunk-written", fmt.Sprintf("file %d: FileEnd written at wire position %d but a chunk frame was completed at %d", fi, fePos, lastCH))
		}
		bits := 0
		if fi < len(c.Bitmap) && !c.NoAns {
			bits = c.Bitmap[fi]
		}
		highest := -1
		for i := 0; i < n; i++ {
			if bits&(1<<uint(i)) != 0 {
				highest = i
			}
		}
		for i := 0; i < n; i++ {
			lacking := bits&(1<<uint(i)) == 0
			cnt := sent[uint32(i)]
			if lacking && cnt != 1 {
				r.violate("needed-chunk-not-sent-exactly-once", fmt.Sprintf("file %d: chunk %d (not held by the receiver) written %d times", fi, i, cnt))
			}
			if cnt > 2 {
				r.violate("chunk-written-more-than-twice", fmt.Sprintf("file %d: chunk %d written %d times", fi, i, cnt))
			}
		}
		// the verification tail: unless the receiver holds every chunk, the last `tail` chunks up
		// to and including the verification point go out again (that is what the option is for)
		if !c.NoAns && c.Delay == 0 && highest >= 0 && c.Tail > 0 && c.Hash != "none" {
			all := true
			for i := 0; i < n; i++ {
				if bits&(1<<uint(i)) == 0 {
					all = false
				}
			}
			from := highest + 1 - int(c.Tail)
			if from < 0 {
				from = 0
			}
			for i := from; i <= highest && !all; i++ {
				if sent[uint32(i)] == 0 {
					r.violate("verification-tail-not-sent", fmt.Sprintf("file %d: chunk %d lies within the verification tail (point %d, tail %d) and was never written", fi, i, highest, c.Tail))
				}
			}
		}
		// re-sends: only the verification chunk, only after a wrong hash
		resends := 0
		for _, h := range r.handouts {
			if h.key == key && h.resend {
				resends++
				if int(h.idx) != highest {
					r.violate("resend-of-wrong-chunk", fmt.Sprintf("file %d: re-send of chunk %d, verification chunk is %d", fi, h.idx, highest))
				}
			}
		}
		wantResend := 0
		if !c.NoAns && c.Hash == "wrong" && highest >= 0 {
			wantResend = 1
		}
		if resends > 1 || (resends == 1 && wantResend == 0) {
			r.violate("unexpected-resend", fmt.Sprintf("file %d: %d re-sends, hash verdict %s", fi, resends, c.Hash))
		}
		if wantResend == 1 && c.Delay == 0 && sent[uint32(highest)] == 0 {
			r.violate("failed-verification-not-resent", fmt.Sprintf("file %d: chunk %d failed verification but was never written", fi, highest))
		}
	}
	for i, msg := range r.viol {
		res.Violate("mismatch", "xfer/c17", map[string]any{"class": r.violCls[i]}, fmt.Sprintf("%s: %s | wire: %s", c, msg, strings.Join(r.wire, " ")), rp)
	}
}

func modeC17() {
	res.Rule = "real sender against a scripted recording receiver: 1-2 files x 0-4 chunks x 1-3 workers x every bitmap x hash verdict {right, wrong, unknown, none} x tail {0,1} x answer time {at once, after the 300 ms grace, never}; every schedule within the deviation bound; probes at sendFileState.nextChunkToSend/markChunkDone/trySendEnd plus the wire order; non-trivial = every execution; distinct by (case, trace)"
	thorough := vlib.F.Tier == "thorough"
	st := newStats()
	budget := 170 * time.Second
	if thorough {
		budget = 28 * time.Minute
	}
	deadline := time.Now().Add(budget)
	var cases []C17Case
	for n := 0; n <= 4; n++ {
		for w := 1; w <= 3; w++ {
			for bits := 0; bits < 1<<uint(n); bits++ {
				for _, h := range []string{"right", "wrong", "unknown", "none"} {
					if bits == 0 && h != "right" {
						continue
					}
					for _, tail := range []uint32{0, 1, 2} {
						if tail == 2 && (n < 2 || w > 2) {
							continue
						}
						for _, delay := range []int{0, 400} {
							cases = append(cases, C17Case{Chunks: []int{n}, Streams: w, Bitmap: []int{bits}, Hash: h, Tail: tail, Delay: delay})
						}
					}
				}
			}
			cases = append(cases, C17Case{Chunks: []int{n}, Streams: w, NoAns: true})
		}
	}
	for _, w := range []int{2, 3} {
		for _, b0 := range []int{0, 1, 3} {
			for _, b1 := range []int{0, 2} {
				for _, h := range []string{"right", "wrong"} {
					cases = append(cases, C17Case{Chunks: []int{2, 3}, Streams: w, Bitmap: []int{b0, b1}, Hash: h})
				}
			}
		}
	}
	// files above the sender's small-file threshold (threshold 2 bytes): the scheduler's weighted
	// path decides which file starts next; one and two such files, also more slots than files
	for _, chunks := range [][]int{{2}, {3}, {2, 1}, {2, 3}} {
		for _, w := range []int{2, 3} {
			if len(chunks) > 1 && w > 2 && !thorough {
				continue
			}
			for _, h := range []string{"right", "wrong"} {
				bm := make([]int, len(chunks))
				bm[0] = 1
				cases = append(cases, C17Case{Chunks: chunks, Streams: w, Bitmap: bm, Hash: h, Small: 2})
			}
			cases = append(cases, C17Case{Chunks: chunks, Streams: w, NoAns: true, Small: 2})
		}
	}
	sort.SliceStable(cases, func(i, j int) bool { return len(cases[i].Chunks) < len(cases[j].Chunks) })
	cfg := baseCfg()
	for i, c := range cases {
		if !vlib.MineKey(c.String()) {
			continue
		}
		c := c
		bound := 1
		tot := 0
		for _, n := range c.Chunks {
			tot += n
		}
		if thorough && tot <= 2 {
			bound = 2
		}
		e := &vrt.Explorer{Cfg: cfg, Bound: bound, Deadline: deadline, Root: func() { runC17(c) }}
		e.Visit = func(x *vrt.Exec) bool {
			checkC17(c, x)
			res.Nontrivial(fmt.Sprintf("%s|%x", c, x.Trace()))
			return true
		}
		e.Run()
		st.add(e)
		res.SampleSpread(int64(i), c.String())
	}
	// Lock-level phase: the smallest cases once more with mutex acquisitions as scheduling points
	// and the demote deviation at bound 2, every shard taking its share of the first-level
	// subtrees - check-then-act sequences in the sender's bookkeeping need lock points.
	lockCases := []C17Case{
		{Chunks: []int{1}, Streams: 1, Bitmap: []int{1}, Hash: "wrong", Tail: 1},
		{Chunks: []int{2}, Streams: 2, Bitmap: []int{1}, Hash: "right", Tail: 0},
		{Chunks: []int{2}, Streams: 1, Bitmap: []int{3}, Hash: "wrong", Tail: 0},
	}
	if thorough {
		lockCases = append(lockCases,
			C17Case{Chunks: []int{2}, Streams: 2, Bitmap: []int{0}, Hash: "right", Tail: 0},
			C17Case{Chunks: []int{3}, Streams: 2, Bitmap: []int{5}, Hash: "wrong", Tail: 1},
			C17Case{Chunks: []int{2}, Streams: 2, NoAns: true},
			C17Case{Chunks: []int{1, 1}, Streams: 2, Bitmap: []int{0, 1}, Hash: "wrong"},
			C17Case{Chunks: []int{2}, Streams: 2, Bitmap: []int{2}, Hash: "unknown", Tail: 1, Delay: 400})
	}
	lcfg := baseCfg()
	lcfg.LockPoints = true
	lcfg.Demote = true
	var lockExecs int64
	for i, c := range lockCases {
		c := c
		e := &vrt.Explorer{Cfg: lcfg, Bound: 2, Deadline: deadline, Root: func() { runC17(c) }}
		e.Shard, e.NShards = vlib.F.Shard, vlib.F.NShards
		e.Visit = func(x *vrt.Exec) bool {
			lockExecs++
			checkC17(c, x)
			res.Nontrivial(fmt.Sprintf("L2|%s|%x", c, x.Trace()))
			return true
		}
		e.Run()
		st.add(e)
		res.SampleSpread(int64(len(cases)+i), "lock-level: "+c.String())
	}
	res.Extra["lock_phase_executions"] = float64(lockExecs)
	vrt.EmitHook = nil
	st.cases = len(cases) + len(lockCases)
	for _, p := range c17prep {
		os.RemoveAll(p.SrcRoot)
	}
	st.finish()
}
