package vrt

import (
	"context"
	"errors"
	"io"
	"time"
)

// ---- virtual time ----

func Now() time.Time {
	x := X
	if x == nil || x.fin {
		return time.Now() // harness code outside an execution
	}
	return time.Unix(0, x.clock)
}

func Since(t time.Time) time.Duration { return Now().Sub(t) }
func Until(t time.Time) time.Duration { return t.Sub(Now()) }

// After is time.After on the virtual clock.
func After(d time.Duration) <-chan time.Time {
	x := X
	ch := make(chan time.Time, 1)
	if x.teardown {
		return ch
	}
	x.addTimer(int64(d), func() {
		select {
		case ch <- time.Unix(0, x.clock):
		default:
		}
	})
	return ch
}

// Sleep blocks the thread for d of virtual time.
func Sleep(d time.Duration) {
	x := X
	if x.teardown {
		return
	}
	fired := false
	x.addTimer(int64(d), func() { fired = true })
	x.yield(func() bool { return fired }, "sleep")
}

// Timer mirrors time.Timer.
type Timer struct {
	C  <-chan time.Time
	c  chan time.Time
	tm *timer
	f  func()
}

func NewTimer(d time.Duration) *Timer {
	x := X
	c := make(chan time.Time, 1)
	t := &Timer{C: c, c: c}
	if x.teardown {
		return t
	}
	t.arm(d)
	return t
}

func (t *Timer) arm(d time.Duration) {
	x := X
	t.tm = x.addTimer(int64(d), func() {
		if t.f != nil {
			f := t.f
			GoNamedFromTimer(f)
			return
		}
		select {
		case t.c <- time.Unix(0, x.clock):
		default:
		}
	})
}

// GoNamedFromTimer starts f as a new thread without making the firing context yield.
func GoNamedFromTimer(f func()) {
	x := X
	if x.teardown {
		return
	}
	t := x.newThread("", "timer")
	t.Name = "timerfunc"
	x.startThread(t, f)
}

func (t *Timer) Stop() bool {
	if X.teardown || t.tm == nil {
		return false
	}
	active := !t.tm.dead
	t.tm.dead = true
	// Go >= 1.23: no stale value after Stop
	if t.c != nil {
		select {
		case <-t.c:
		default:
		}
	}
	return active
}

func (t *Timer) Reset(d time.Duration) bool {
	if X.teardown {
		return false
	}
	active := t.tm != nil && !t.tm.dead
	if t.tm != nil {
		t.tm.dead = true
	}
	if t.c != nil {
		select {
		case <-t.c:
		default:
		}
	}
	t.arm(d)
	return active
}

// TimerCall runs f inside the scheduler when the virtual clock reaches now+d (no thread is
// created; f must not block). For environment models.
func TimerCall(d time.Duration, f func()) *Timer {
	t := &Timer{}
	if X.teardown {
		return t
	}
	t.tm = X.addTimer(int64(d), f)
	return t
}

func AfterFunc(d time.Duration, f func()) *Timer {
	t := &Timer{f: f}
	if X.teardown {
		return t
	}
	t.arm(d)
	return t
}

// Ticker mirrors time.Ticker.
type Ticker struct {
	C       <-chan time.Time
	c       chan time.Time
	tm      *timer
	d       time.Duration
	stopped bool
}

func NewTicker(d time.Duration) *Ticker {
	if d <= 0 {
		panic("non-positive interval for NewTicker")
	}
	c := make(chan time.Time, 1)
	t := &Ticker{C: c, c: c, d: d}
	if X.teardown {
		return t
	}
	t.arm()
	return t
}

func (t *Ticker) arm() {
	x := X
	t.tm = x.addTimer(int64(t.d), func() {
		if t.stopped {
			return
		}
		select {
		case t.c <- time.Unix(0, x.clock):
		default:
		}
		t.arm()
	})
}

func (t *Ticker) Stop() {
	t.stopped = true
	if t.tm != nil {
		t.tm.dead = true
	}
}

func (t *Ticker) Reset(d time.Duration) {
	if X.teardown {
		return
	}
	if t.tm != nil {
		t.tm.dead = true
	}
	t.d = d
	t.stopped = false
	t.arm()
}

// ---- contexts ----

type vctx struct {
	parent   context.Context
	done     chan struct{}
	err      error
	deadline time.Time
	hasDL    bool
	children []*vctx
	tm       *timer
}

func (c *vctx) Deadline() (time.Time, bool) {
	if c.hasDL {
		return c.deadline, true
	}
	return c.parent.Deadline()
}
func (c *vctx) Done() <-chan struct{} { return c.done }
func (c *vctx) Err() error            { return c.err }
func (c *vctx) Value(k any) any       { return c.parent.Value(k) }

func (c *vctx) cancel(err error) {
	if c.err != nil {
		return
	}
	c.err = err
	x := X
	id := chanPtr((<-chan struct{})(c.done))
	if !x.closed[id] {
		x.closed[id] = true
		x.keep = append(x.keep, c.done)
		close(c.done)
	}
	if c.tm != nil {
		c.tm.dead = true
	}
	for _, ch := range c.children {
		ch.cancel(err)
	}
	c.children = nil
}

func newCtx(parent context.Context) *vctx {
	c := &vctx{parent: parent, done: make(chan struct{})}
	if p, ok := parent.(*vctx); ok {
		if p.err != nil {
			c.cancel(p.err)
		} else {
			p.children = append(p.children, c)
		}
	} else if parent.Done() != nil {
		// foreign cancellable parent: watcher thread
		if err := parent.Err(); err != nil {
			c.cancel(err)
		} else if !X.teardown {
			pd := parent.Done()
			GoNamedFromTimer(func() {
				sel := Select(false, CaseRecv(pd), CaseRecv((<-chan struct{})(c.done)))
				if sel.Index == 0 {
					c.cancel(parent.Err())
				}
			})
		}
	}
	return c
}

func WithCancel(parent context.Context) (context.Context, context.CancelFunc) {
	c := newCtx(parent)
	return c, func() {
		if X.teardown {
			return
		}
		was := c.err == nil
		c.cancel(context.Canceled)
		if was {
			X.yield(nil, "cancel")
		}
	}
}

func WithDeadline(parent context.Context, d time.Time) (context.Context, context.CancelFunc) {
	c := newCtx(parent)
	if pd, ok := parent.Deadline(); ok && pd.Before(d) {
		d = pd
	}
	c.deadline, c.hasDL = d, true
	if c.err == nil && !X.teardown {
		x := X
		dur := d.UnixNano() - x.clock
		if dur <= 0 {
			c.cancel(context.DeadlineExceeded)
		} else {
			c.tm = x.addTimer(dur, func() { c.cancel(context.DeadlineExceeded) })
		}
	}
	return c, func() {
		if X.teardown {
			return
		}
		was := c.err == nil
		c.cancel(context.Canceled)
		if was {
			X.yield(nil, "cancel")
		}
	}
}

func WithTimeout(parent context.Context, d time.Duration) (context.Context, context.CancelFunc) {
	return WithDeadline(parent, Now().Add(d))
}

// ---- crypto/rand ----

type randReader struct{}

func (randReader) Read(p []byte) (int, error) { return RandRead(p) }

// RandReader replaces crypto/rand.Reader.
var RandReader io.Reader = randReader{}

// RandRead fills p from the per-execution deterministic stream (or the harness script).
func RandRead(p []byte) (int, error) {
	x := X
	if len(x.cfg.RandScript) > 0 {
		for i := range p {
			p[i] = x.cfg.RandScript[int(x.rngCtr)%len(x.cfg.RandScript)]
			x.rngCtr++
		}
		return len(p), nil
	}
	for i := range p {
		// splitmix64 of a counter: deterministic per execution, well mixed in every bit
		x.rngCtr++
		z := x.rngCtr * 0x9E3779B97F4A7C15
		z = (z ^ (z >> 30)) * 0xBF58476D1CE4E5B9
		z = (z ^ (z >> 27)) * 0x94D049BB133111EB
		z ^= z >> 31
		p[i] = byte(z >> 24)
	}
	return len(p), nil
}

// SetRandScript installs scripted randomness from now on.
func SetRandScript(b []byte) { X.cfg.RandScript = b; X.rngCtr = 0 }

var ErrDeadline = errors.New("deadline exceeded")
