//go:build verif

package main

import (
	"encoding/json"
	"fmt"
	"os"
	"path/filepath"
	"sort"
	"sync"
	"time"

	"github.com/sheerbytes/sheerbytes/internal/verif/vlib"
	vrt "github.com/sheerbytes/sheerbytes/internal/verif/vrt"
)

var res *vlib.Result

func setOf(m map[string]int) []string {
	var out []string
	for k := range m {
		out = append(out, k)
	}
	sort.Strings(out)
	return out
}

func main() {
	res = vlib.Parse()
	mode := vlib.Arg("mode", "model")
	res.Part = "go-" + mode
	shared := filepath.Join(os.Getenv("VERIF_WORKDIR"), "confgo-native.json")
	if mode == "native" {
		res.Rule = "every conformance program run natively (real goroutines, real clock) 300 times (30 for the ones that sleep); outcome sets recorded for the model side to compare"
		out := map[string][]string{}
		for _, p := range progs {
			if p.name == "unlock-of-unlocked" {
				continue
			}
			n := 300
			if p.slow {
				n = 30
			}
			seen := map[string]int{}
			for i := 0; i < n; i++ {
				ch := make(chan string, 1)
				go func() { ch <- p.f() }()
				select {
				case o := <-ch:
					seen[o]++
				case <-time.After(500 * time.Millisecond):
					seen["deadlock"]++
					if seen["deadlock"] >= 3 {
						i = n // it hangs every time; no need to wait 30 more times
					}
				}
				res.Eval()
			}
			out[p.name] = setOf(seen)
			res.Nontrivial(p.name)
		}
		b, _ := json.Marshal(out)
		if err := os.WriteFile(shared, b, 0644); err != nil {
			res.InfraError("%v", err)
		}
		res.Finish()
	}
	res.Rule = "every conformance program explored under the controlled scheduler (all schedules within delay bound 4, timer-first deviations on, atomics and locks as scheduling points); model outcome set must contain every native outcome and stay inside the legal set"
	native := map[string][]string{}
	if b, err := os.ReadFile(shared); err == nil {
		json.Unmarshal(b, &native)
	} else {
		res.InfraError("native outcomes missing: %v", err)
	}
	report := map[string]any{}
	for _, p := range progs {
		p := p
		seen := map[string]int{}
		cfg := vrt.DefaultConfig()
		cfg.AtomicPoints = true
		cfg.TimerFirst = true
		cfg.TimerTies = true
		cfg.IdleHorizon = int64(time.Hour)
		var out string
		body := p.f
		if p.name == "unlock-of-unlocked" {
			body = func() (s string) {
				defer func() {
					if recover() != nil {
						s = "fatal"
					}
				}()
				var mu sync.Mutex
				mu.Unlock()
				return "silently accepted"
			}
		}
		ex := &vrt.Explorer{Cfg: cfg, Bound: 4, Root: func() { out = ""; out = body() }}
		ex.Visit = func(x *vrt.Exec) bool {
			res.Eval()
			switch x.Outcome {
			case "ok":
				seen[out]++
			case "deadlock":
				seen["deadlock"]++
			default:
				seen[x.Outcome+":"+x.Detail]++
			}
			return true
		}
		ex.Run()
		res.Trans += ex.Execs
		res.Validated += ex.Execs
		res.States += ex.Nodes
		model := setOf(seen)
		res.Nontrivial(p.name)
		legal := map[string]bool{}
		for _, l := range p.legal {
			legal[l] = true
		}
		for _, o := range model {
			if !legal[o] {
				res.Violate("mismatch", "conformance/go", map[string]any{"program": p.name, "class": "model-outcome-outside-go-semantics"},
					fmt.Sprintf("%s: the scheduler model produced %q, Go allows only %v", p.name, o, p.legal), p.name)
			}
		}
		for _, o := range native[p.name] {
			if seen[o] == 0 {
				res.Violate("mismatch", "conformance/go", map[string]any{"program": p.name, "class": "native-outcome-missing-in-model"},
					fmt.Sprintf("%s: the native run showed %q, the explorer only finds %v", p.name, o, model), p.name)
			}
		}
		if !ex.Complete {
			res.NotExhaustive("explorer stopped: " + ex.Stopped)
		}
		res.Sample(map[string]any{"program": p.name, "model": model, "native": native[p.name]})
		report[p.name] = map[string]any{"model": model, "native": native[p.name], "legal": p.legal, "executions": ex.Execs}
	}
	b, _ := json.Marshal(report)
	res.Extra["programs"] = string(b)
	res.Finish()
}
