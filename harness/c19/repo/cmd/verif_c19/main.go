//go:build verif

// C19 harness: chunk geometry, bounded-exhaustive (engine E3).
package main

import (
	"bytes"
	"fmt"
	"os"
	"path/filepath"

	"github.com/sheerbytes/sheerbytes/internal/transfer"
	"github.com/sheerbytes/sheerbytes/internal/verif/vlib"
)

type caseT struct {
	Size  int64  `json:"size"`
	Chunk uint32 `json:"chunk"`
}

var res *vlib.Result
var scratch string

func sizeClass(size int64) string {
	if size == 0 {
		return "0"
	}
	return "nonzero"
}

func violate(site, class string, c caseT, what string) {
	res.Violate("mismatch", "c19/geometry", map[string]any{"site": site, "class": class, "size": sizeClass(c.Size)}, what, c)
}

// refCount is the independent reference: ceil(size/chunk) without the +chunk-1 idiom.
func refCount(size int64, chunk uint32) (uint64, bool) {
	q := uint64(size) / uint64(chunk)
	if uint64(size)%uint64(chunk) != 0 {
		q++
	}
	return q, q <= 0xFFFFFFFF
}

// checkLateWrites: every chunk written through the receiver's late-chunk path, in reverse
// order, must tile the file exactly.
func checkLateWrites(c caseT, count uint32) {
	path := filepath.Join(scratch, "late.bin")
	want := make([]byte, c.Size)
	for i := range want {
		want[i] = byte(i*7 + 1)
	}
	if err := os.WriteFile(path, bytes.Repeat([]byte{0xEE}, int(c.Size)), 0644); err != nil {
		res.InfraError("%v", err)
		return
	}
	for k := int64(count) - 1; k >= 0; k-- {
		lo := k * int64(c.Chunk)
		hi := lo + int64(c.Chunk)
		if hi > c.Size {
			hi = c.Size
		}
		if err := transfer.VerifWriteLateChunk(path, c.Chunk, uint32(k), want[lo:hi]); err != nil {
			violate("writeLateChunk", "error", c, fmt.Sprintf("writeLateChunk(size %d, chunk %d, index %d): %v", c.Size, c.Chunk, k, err))
			return
		}
	}
	got, _ := os.ReadFile(path)
	if !bytes.Equal(got, want) {
		i := 0
		for i < len(got) && i < len(want) && got[i] == want[i] {
			i++
		}
		violate("writeLateChunk", "offset", c, fmt.Sprintf("size %d chunk %d: the chunks written through the late-chunk path do not tile the file (length %d, first difference at byte %d)", c.Size, c.Chunk, len(got), i))
	}
}

// checkReload: resume metadata left by a run with another chunk size must not decide the
// geometry of this one - what the receiver loads has to agree with sender and receiver on the
// number of chunks (and carry no completed chunk of the other tiling).
func checkReload(c caseT, count uint32) {
	if c.Size == 0 {
		return
	}
	for _, other := range []uint32{c.Chunk + 1, c.Chunk - 1, c.Chunk * 2, c.Chunk / 2, 1} {
		if other == 0 || other == c.Chunk {
			continue
		}
		path := filepath.Join(scratch, "reload.sbxmap")
		os.Remove(path)
		total, chunk, set, err := transfer.VerifReloadSidecar(path, "0123456789abcdef", c.Size, other, c.Chunk)
		if err != nil {
			violate("LoadOrCreateSidecarWithFallback", "error", c, fmt.Sprintf("size %d: metadata of chunk size %d reloaded for chunk size %d: %v", c.Size, other, c.Chunk, err))
			continue
		}
		if total != count || chunk != c.Chunk {
			violate("LoadOrCreateSidecarWithFallback", "count", c, fmt.Sprintf("size %d: metadata written with chunk size %d is reused for chunk size %d: it says %d chunks of %d bytes, sender and receiver use %d chunks of %d", c.Size, other, c.Chunk, total, chunk, count, c.Chunk))
		} else if set != 0 {
			violate("LoadOrCreateSidecarWithFallback", "foreign-bits", c, fmt.Sprintf("size %d: metadata written with chunk size %d is reused for chunk size %d with %d chunks marked complete", c.Size, other, c.Chunk, set))
		}
	}
}

func checkPair(c caseT, indices []uint32, allIndices bool, withSidecar bool) {
	res.Eval()
	want64, fits := refCount(c.Size, c.Chunk)
	if !fits {
		return
	}
	want := uint32(want64)
	if c.Size%int64(c.Chunk) != 0 || want != 1 {
		res.Nontrivial(fmt.Sprintf("%d/%d", c.Size, c.Chunk))
	}
	if allIndices && c.Size <= 48 && c.Chunk <= 12 {
		checkLateWrites(c, want)
		checkReload(c, want)
	}
	got := transfer.VerifChunkTotal(c.Size, c.Chunk)
	if got != want {
		violate("chunkTotal", "count", c, fmt.Sprintf("chunkTotal(%d,%d)=%d, reference %d", c.Size, c.Chunk, got, want))
	}
	for _, e := range transfer.VerifCountExprs {
		if g := e.F(c.Size, c.Chunk); g != want {
			violate(e.Where, "count", c, fmt.Sprintf("%s: %s = %d for size=%d chunk=%d, reference %d", e.Where, e.Text, g, c.Size, c.Chunk, want))
		}
	}
	if withSidecar {
		p := filepath.Join(scratch, "sc.sbxmap")
		sc, err := transfer.CreateSidecar(p, "id", c.Size, c.Chunk)
		if err != nil {
			res.InfraError("CreateSidecar(%d,%d): %v", c.Size, c.Chunk, err)
		} else if sc.TotalChunks != want {
			violate("CreateSidecar", "count", c, fmt.Sprintf("CreateSidecar(size=%d,chunk=%d).TotalChunks=%d, sender/receiver count %d", c.Size, c.Chunk, sc.TotalChunks, want))
		}
		os.Remove(p)
	}
	// tiling
	if allIndices {
		var sum int64
		for idx := uint32(0); idx < want; idx++ {
			l := transfer.VerifChunkSizeForIndex(c.Size, c.Chunk, idx)
			off := int64(idx) * int64(c.Chunk) // the receiver's write offset / the sender's read offset
			checkOffsetExprs(c, idx, off)
			if off != sum {
				violate("chunkSizeForIndex", "gap-or-overlap", c, fmt.Sprintf("size=%d chunk=%d idx=%d: offset %d but previous chunks cover %d bytes", c.Size, c.Chunk, idx, off, sum))
				break
			}
			if l == 0 || l > c.Chunk {
				violate("chunkSizeForIndex", "length", c, fmt.Sprintf("size=%d chunk=%d idx=%d: length %d", c.Size, c.Chunk, idx, l))
				break
			}
			sum += int64(l)
		}
		if sum != c.Size {
			violate("chunkSizeForIndex", "sum", c, fmt.Sprintf("size=%d chunk=%d: chunk lengths sum to %d", c.Size, c.Chunk, sum))
		}
		for _, idx := range []uint32{want, want + 1} {
			if idx >= want {
				if l := transfer.VerifChunkSizeForIndex(c.Size, c.Chunk, idx); l != 0 {
					violate("chunkSizeForIndex", "beyond-end", c, fmt.Sprintf("size=%d chunk=%d idx=%d (count %d): length %d, want 0", c.Size, c.Chunk, idx, want, l))
				}
			}
		}
		return
	}
	for _, idx := range indices {
		if idx < want {
			checkOffsetExprs(c, idx, int64(idx)*int64(c.Chunk))
		}
		l := transfer.VerifChunkSizeForIndex(c.Size, c.Chunk, idx)
		var wantLen uint32
		off := uint64(idx) * uint64(c.Chunk)
		if idx < want {
			rem := uint64(c.Size) - off
			if rem >= uint64(c.Chunk) {
				wantLen = c.Chunk
			} else {
				wantLen = uint32(rem)
			}
		}
		if l != wantLen {
			violate("chunkSizeForIndex", "length", c, fmt.Sprintf("size=%d chunk=%d idx=%d (count %d): length %d, want %d", c.Size, c.Chunk, idx, want, l, wantLen))
		}
	}
}

// checkOffsetExprs: every inline "offset of chunk idx" expression of the source (sliced
// verbatim at check time) must give the offset the tiling needs.
func checkOffsetExprs(c caseT, idx uint32, want int64) {
	for _, e := range transfer.VerifOffsetExprs {
		if g := e.F(idx, c.Chunk); g != want {
			violate(e.Where, "offset", c, fmt.Sprintf("%s: %s = %d for index=%d chunk=%d (size %d), the tiling needs %d", e.Where, e.Text, g, idx, c.Chunk, c.Size, want))
		}
	}
}

func main() {
	res = vlib.Parse()
	res.Part = "geometry"
	res.Rule = "all (size,chunk) in [0,maxS]x[1,maxC] with every index, plus the boundary lattice size=k*chunk+d; a pair is non-trivial when size is not a multiple of chunk or the count is not 1; distinct by (size,chunk)"
	scratch = os.Getenv("VERIF_SCRATCH")
	if scratch == "" {
		scratch, _ = os.MkdirTemp("", "c19")
		defer os.RemoveAll(scratch)
	}
	if len(transfer.VerifCountExprs) == 0 {
		res.Extra["inline_count_expressions"] = 0
	} else {
		w := []string{}
		for _, e := range transfer.VerifCountExprs {
			w = append(w, e.Where+": "+e.Text)
		}
		res.Extra["inline_count_expressions_found"] = w
	}
	{
		w := []string{}
		for _, e := range transfer.VerifOffsetExprs {
			w = append(w, e.Where+": "+e.Text)
		}
		res.Extra["inline_offset_expressions_found"] = w
		if len(w) < 4 {
			res.InfraError("only %d inline offset expressions found in internal/transfer (sender read, receiver write, late chunk, hash): the slicing rule no longer matches the source", len(w))
		}
	}
	if vlib.F.Replay != "" {
		replay()
		res.Finish()
	}
	maxS, maxC := int64(300), uint32(40)
	if vlib.F.Tier == "thorough" {
		maxS, maxC = 1500, 130
	}
	n := 0
	for size := int64(0); size <= maxS; size++ {
		for chunk := uint32(1); chunk <= maxC; chunk++ {
			n++
			if !vlib.Mine(n) {
				continue
			}
			c := caseT{size, chunk}
			checkPair(c, nil, true, true)
			checkSenderSchedule(c)
			res.SampleSpread(int64(n), c)
		}
	}
	// boundary lattice
	chunks := []uint32{1, 2, 3, 1023, 1024, 1025, 1 << 20, 1 << 22, 1<<22 + 1, 1<<31 - 1, 1 << 31, 1<<31 + 1, 1<<32 - 1}
	counts := []uint64{1, 2, 3, 65535, 65536, 65537, 1<<31 - 1, 1 << 31, 1<<31 + 1, 1<<32 - 2, 1<<32 - 1}
	for _, ch := range chunks {
		for _, k := range counts {
			for _, d := range []int64{-1, 0, 1} {
				n++
				if !vlib.Mine(n) {
					continue
				}
				prod := k * uint64(ch)
				if prod > uint64(transfer.VerifMaxFileSize)+1 {
					continue
				}
				size := int64(prod) + d
				if size < 0 || size > transfer.VerifMaxFileSize {
					continue
				}
				cnt, fits := refCount(size, ch)
				if !fits {
					continue
				}
				c := caseT{size, ch}
				last := uint32(cnt)
				idx := []uint32{0, 1, last / 2}
				if last > 0 {
					idx = append(idx, last-1)
				}
				if last > 1 {
					idx = append(idx, last-2)
				}
				idx = append(idx, last)
				if last < 0xFFFFFFFF {
					idx = append(idx, last+1)
				}
				checkPair(c, idx, cnt <= 1<<16, cnt <= 1<<22)
				if cnt <= 1<<16 {
					checkSenderSchedule(c)
				}
				res.SampleSpread(int64(n), c)
			}
		}
	}
	res.Finish()
}

// checkSenderSchedule: the lengths the sender's scheduler hands to the data-stream workers - the
// default schedule and a re-send of every index from both re-send sites - are those of the tiling.
func checkSenderSchedule(c caseT) {
	cnt, _ := refCount(c.Size, c.Chunk)
	want := func(idx uint32) uint32 {
		rem := c.Size - int64(idx)*int64(c.Chunk)
		if rem > int64(c.Chunk) {
			rem = int64(c.Chunk)
		}
		return uint32(rem)
	}
	sched, before, after := transfer.VerifSenderSchedule(c.Size, c.Chunk)
	res.Eval()
	if uint64(len(sched)) != cnt {
		violate("sendFileState.nextChunkToSend", "schedule-count", c, fmt.Sprintf("scheduler hands out %d chunks for size=%d chunk=%d, reference %d", len(sched), c.Size, c.Chunk, cnt))
		return
	}
	var sum int64
	for i, e := range sched {
		sum += int64(e[1])
		if e[0] != uint32(i) || e[1] != want(e[0]) {
			violate("sendFileState.nextChunkToSend", "schedule-length", c, fmt.Sprintf("schedule entry %d is chunk %d of length %d for size=%d chunk=%d, reference chunk %d of length %d", i, e[0], e[1], c.Size, c.Chunk, i, want(uint32(i))))
			return
		}
	}
	if sum != c.Size {
		violate("sendFileState.nextChunkToSend", "schedule-sum", c, fmt.Sprintf("scheduled lengths add up to %d for size=%d chunk=%d", sum, c.Size, c.Chunk))
		return
	}
	for k, list := range [][][2]uint32{before, after} {
		site := []string{"resend-before-schedule-done", "resend-after-schedule-done"}[k]
		if uint64(len(list)) != cnt {
			violate("sendFileState.nextChunkToSend", site+"-count", c, fmt.Sprintf("%s: %d of %d requested re-sends handed out for size=%d chunk=%d", site, len(list), cnt, c.Size, c.Chunk))
			return
		}
		for i, e := range list {
			if e[0] != uint32(i) || e[1] != want(e[0]) {
				violate("sendFileState.nextChunkToSend", site+"-length", c, fmt.Sprintf("%s: re-sent chunk %d has length %d for size=%d chunk=%d, the tiling says chunk %d of length %d", site, e[0], e[1], c.Size, c.Chunk, i, want(uint32(i))))
				return
			}
		}
	}
}

func replay() {
	var art struct {
		Violation struct {
			Replay caseT `json:"replay"`
		} `json:"violation"`
	}
	if err := vlib.ReadJSON(vlib.F.Replay, &art); err != nil {
		res.InfraError("replay: %v", err)
		return
	}
	c := art.Violation.Replay
	cnt, _ := refCount(c.Size, c.Chunk)
	last := uint32(cnt)
	idx := []uint32{0, 1, last / 2, last}
	if last > 0 {
		idx = append(idx, last-1)
	}
	if last > 1 {
		idx = append(idx, last-2)
	}
	if last < 0xFFFFFFFF {
		idx = append(idx, last+1)
	}
	checkPair(c, idx, cnt <= 1<<16, cnt <= 1<<22)
	if cnt <= 1<<16 {
		checkSenderSchedule(c)
	}
}
