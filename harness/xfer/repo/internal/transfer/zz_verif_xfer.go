//go:build verif

package transfer

import "github.com/sheerbytes/sheerbytes/pkg/manifest"

// Exports for the transfer harness (overlay only).

func VerifReadControlMessage(s Stream) (byte, any, error) { return readControlMessage(s) }

const (
	VerifTypeFileDone       = controlTypeFileDone
	VerifTypeFileResumeInfo = controlTypeFileResumeInfo
)

// VerifBitmap returns a copy of the sidecar's bitmap bytes.
func (s *Sidecar) VerifBitmap() []byte { return s.MarshalBitmap() }

// VerifFileKey exposes the file key (hash of id or rel_path) used on the wire.
func VerifFileKey(it manifest.FileItem) uint64 { return fileKeyForItem(it) }

func VerifReadControlHeader(s Stream) (manifest.Manifest, error) { return readControlHeader(s) }

// VerifSendInfo is a snapshot of a sendFileState for the C17 oracle.
type VerifSendInfo struct {
	Key           uint64
	TotalChunks   uint32
	PlanKnown     bool
	ForceSendFrom uint32
	Present       []bool
	VerifyPending bool
	ResendPending bool
	ResendChunk   uint32
	EndSent       bool
	InFlight      int
	ScheduleDone  bool
}

// VerifSendState snapshots a *sendFileState handed to a probe.
func VerifSendState(v any) (VerifSendInfo, bool) {
	s, ok := v.(*sendFileState)
	if !ok || s == nil {
		return VerifSendInfo{}, false
	}
	in := VerifSendInfo{Key: s.key, TotalChunks: s.totalChunks, VerifyPending: s.verifyPending, ResendPending: s.resendPending,
		ResendChunk: s.resendChunk, EndSent: s.endSent, InFlight: s.inFlight, ScheduleDone: s.scheduleDone}
	if s.plan != nil {
		in.PlanKnown = true
		in.ForceSendFrom = s.plan.forceSendFrom
		if s.plan.bitmap != nil {
			in.Present = make([]bool, s.totalChunks)
			for i := range in.Present {
				in.Present[i] = s.plan.bitmap.Get(i)
			}
		}
	}
	return in, true
}
