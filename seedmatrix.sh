#!/bin/bash
# seedmatrix.sh [tier]: check every seeded change of /verif/seeded on a scratch copy of /repo
# (never on /repo itself) with the check of its own property, replay the first artefact on the
# changed and on the unchanged tree, and write /verif/seeded/RESULTS.txt.
export GOFLAGS=-mod=mod GOPROXY=off
tier=${1:-quick}
S=/dev/shm/seedrepo; S0=/dev/shm/seedrepo0; O=/dev/shm/seedout
rm -rf $S $S0 $O; cp -a /repo $S; cp -a /repo $S0; mkdir -p $O
out=/verif/seeded/RESULTS.txt
# SEED_FILTER=<regex>: only the matching changes are re-run and their rows replaced in RESULTS.txt
if [ -z "$SEED_FILTER" ]; then
  echo "# seeded change | property check | exit code | violations | replay on changed tree | replay on unchanged tree   (tier $tier, $(git -C /repo rev-parse --short HEAD))" > $out
fi
for d in /verif/seeded/*/; do
  name=$(basename $d)
  [ -f $d/patch.diff ] || continue
  if [ -n "$SEED_FILTER" ]; then
    echo "$name" | grep -Eq "$SEED_FILTER" || continue
    grep -v "^$name |" $out > $out.tmp; mv $out.tmp $out
  fi
  id=$(python3 -c "import json;m=json.load(open('$d/meta.json'));print(m.get('checked_by',m['property']))")
  obsolete=$(python3 -c "import json;print(json.load(open('$d/meta.json')).get('status_on_current_tree','')[:60])")
  git -C $S checkout -q -- . ; git -C $S clean -fdq
  if ! git -C $S apply $d/patch.diff 2>/dev/null; then echo "$name | $id | patch no longer applies (superseded by a fix) | | |" >> $out; continue; fi
  rm -rf $O/violations/$id
  VERIF_REPO_DIR=$S VERIF_OUT_DIR=$O /verif/bin/vcheck $id --tier $tier > $O/run_$name.log 2>&1; rc=$?
  nv=$(grep -c '^VIOLATION' $O/run_$name.log)
  art=$(grep -m1 -o "replay=[^ ]*" $O/run_$name.log | cut -d= -f2)
  r1="-"; r2="-"
  if [ -n "$art" ]; then
    if VERIF_REPO_DIR=$S VERIF_OUT_DIR=$O /verif/bin/vcheck replay $art 2>/dev/null | grep -q "^REPRODUCED"; then r1=reproduced; else r1=NOT-reproduced; fi
    if VERIF_REPO_DIR=$S0 VERIF_OUT_DIR=$O /verif/bin/vcheck replay $art 2>/dev/null | grep -q "^NOT REPRODUCED"; then r2=not-reproduced; else r2=REPRODUCED; fi
  fi
  echo "$name | $id | rc=$rc | $nv | $r1 | $r2 ${obsolete:+| obsolete: $obsolete}" >> $out
done
if [ -n "$SEED_FILTER" ]; then (head -1 $out; tail -n +2 $out | sort) > $out.tmp; mv $out.tmp $out; fi
rm -rf $S $S0 $O
