//go:build verif

package main

// "Signaling in a box": the real thruserv main() (renamed by the instrumenter), its handlers, hub
// and store run in-process under the controlled scheduler; HTTP goes through vhttp, websockets
// through vws. Scripted clients talk to it like real peers.

import (
	"context"
	"encoding/json"
	"flag"
	"fmt"
	"io"
	"net/http"
	"net/url"
	"os"
	"strings"
	"time"

	"github.com/sheerbytes/sheerbytes/internal/verif/venv/vhttp"
	websocket "github.com/sheerbytes/sheerbytes/internal/verif/venv/vws"
	vrt "github.com/sheerbytes/sheerbytes/internal/verif/vrt"
	"github.com/sheerbytes/sheerbytes/pkg/protocol"
)

const serverURL = "http://box.test:8080"

// startServer runs the real main() with the given flags and waits until it listens.
func startServer(args []string) {
	flag.CommandLine = flag.NewFlagSet("thruserv", flag.ContinueOnError)
	flag.CommandLine.SetOutput(io.Discard)
	os.Args = append([]string{"thruserv"}, args...)
	vrt.GoNamed("server-main", "server", func() { verifServerMain() })
	vrt.Block("wait-listen", func() bool { return vhttp.Listening() })
}

type sessionInfo struct {
	ID, Code, ExpiresAt string
	Status              int
	Body                string
}

// createSession is a raw POST /session (the real client is exercised by the C16 mode).
func createSession(query string) sessionInfo {
	u := serverURL + "/session"
	if query != "" {
		u += "?" + query
	}
	req, _ := http.NewRequest(http.MethodPost, u, nil)
	resp, err := vhttp.Do(&http.Client{}, req)
	if err != nil {
		return sessionInfo{Status: -1, Body: err.Error()}
	}
	b, _ := io.ReadAll(resp.Body)
	var out struct {
		SessionID string `json:"session_id"`
		JoinCode  string `json:"join_code"`
		ExpiresAt string `json:"expires_at"`
	}
	json.Unmarshal(b, &out)
	return sessionInfo{ID: out.SessionID, Code: out.JoinCode, ExpiresAt: out.ExpiresAt, Status: resp.StatusCode, Body: strings.TrimSpace(string(b))}
}

// Client is a scripted websocket peer.
type Client struct {
	Name   string
	Peer   string
	Role   string
	Sess   int // index of the session it joined
	conn   *websocket.Conn
	Got    []protocol.Envelope
	Raw    []string
	Closed bool
	Err    error
	Status int
	seen   int // frames already judged by the oracle
}

func wsURL(code, peer, role string, extra string) string {
	q := fmt.Sprintf("join_code=%s&peer_id=%s&role=%s", url.QueryEscape(code), url.QueryEscape(peer), url.QueryEscape(role))
	if extra != "" {
		q += "&" + extra
	}
	return "ws://box.test:8080/ws?" + q
}

func connectURL(name, u string) *Client {
	c := &Client{Name: name}
	conn, resp, err := websocket.DefaultDialer.DialContext(context.Background(), u, nil)
	if resp != nil {
		c.Status = resp.StatusCode
	}
	if err != nil {
		c.Err = err
		c.Closed = true
		return c
	}
	c.conn = conn
	vrt.GoNamed("reader-"+name, "client", func() {
		for {
			_, b, err := conn.ReadMessage()
			if err != nil {
				c.Err = err
				c.Closed = true
				return
			}
			c.Raw = append(c.Raw, string(b))
			var env protocol.Envelope
			if json.Unmarshal(b, &env) == nil {
				c.Got = append(c.Got, env)
			}
		}
	})
	return c
}

func connect(name, code, peer, role string) *Client {
	c := connectURL(name, wsURL(code, peer, role, ""))
	c.Peer, c.Role = peer, role
	return c
}

func (c *Client) sendRaw(typ int, b []byte) error {
	if c.conn == nil {
		return fmt.Errorf("not connected")
	}
	return c.conn.WriteMessage(typ, b)
}

func (c *Client) sendEnv(env protocol.Envelope) error {
	b, _ := json.Marshal(env)
	return c.sendRaw(websocket.TextMessage, b)
}

func (c *Client) close() {
	if c.conn != nil && !c.Closed {
		c.conn.Close()
	}
}

func settle() { vrt.Sleep(20 * time.Millisecond) }

func boxCfg() vrt.Config {
	c := vrt.DefaultConfig()
	c.LockPoints = false
	c.IdleHorizon = int64(48 * time.Hour)
	return c
}
