//go:build verif

package session

// VerifCodes returns the join codes currently mapped (overlay only).
func (s *Store) VerifCodes() map[string]string {
	s.mu.RLock()
	defer s.mu.RUnlock()
	out := map[string]string{}
	for k, v := range s.byCode {
		out[k] = v
	}
	return out
}

func (s *Store) VerifSessions() map[string]Session {
	s.mu.RLock()
	defer s.mu.RUnlock()
	out := map[string]Session{}
	for k, v := range s.sessions {
		out[k] = v
	}
	return out
}
