package main

import "time"

// PartSpec is one harness run contributing to a check.
type PartSpec struct {
	Name          string // part name (unique within the check; used in known-finding "check" routing)
	Harness       string // directory under /verif/harness
	Instrument    bool   // build through the E1 instrumenter (controlled scheduler)
	InstrPkgs     []string
	Probes        []string
	Race          bool
	Shards        int
	ProcsPerShard int
	GoMaxProcs    int
	Args          string // -args for quick
	ArgsThorough  string // -args for thorough (default: Args)
	Tiers         string // "" = both, else "quick" or "thorough"
	Timeout       time.Duration
	MemLimitKB    int
	Generate      func(w *work, dir string, ov map[string]string) (map[string]string, error)
}

type CheckSpec struct {
	Level       string
	Assumptions []string
	Parts       []*PartSpec
}

var checks = map[string]*CheckSpec{}

func register(id string, c *CheckSpec) { checks[id] = c }

func init() {
	register("C19", &CheckSpec{
		Level: "exploration",
		Assumptions: []string{
			"inline count expressions are located by name (assignments to totalChunks containing a division) and re-emitted verbatim; an expression written in another shape is not sliced (the list found is in coverage.parts.geometry.inline_count_expressions_found)",
			"sizes above 1500 bytes and chunk sizes above 130 are covered on the boundary lattice only, not exhaustively",
		},
		Parts: []*PartSpec{{Name: "geometry", Harness: "c19", Shards: 8, Generate: genCountExprs}},
	})
}
