//go:build verif

// C11 harness: the real signaling hub under the controlled scheduler (engine E1).
// Scenario templates (setup + 2-3 threads x 1-2 operations on one shared session, plus an
// uninvolved session) are each explored exhaustively within a delay bound.
package main

import (
	"encoding/json"
	"errors"
	"fmt"
	"sort"
	"strconv"
	"strings"
	"time"

	"github.com/anishathalye/porcupine"
	"github.com/sheerbytes/sheerbytes/internal/peers"
	"github.com/sheerbytes/sheerbytes/internal/verif/vlib"
	vrt "github.com/sheerbytes/sheerbytes/internal/verif/vrt"
	"github.com/sheerbytes/sheerbytes/pkg/protocol"
)

// Op is one hub operation of a scenario.
type Op struct {
	Kind string `json:"k"`           // add remove close list bcast bcastx sendto
	Peer string `json:"p,omitempty"` // peer id for add / sendto / bcastx
	Slot int    `json:"s,omitempty"` // add: slot to store the remove func; remove: slot to call
	Fail bool   `json:"f,omitempty"` // add: the send callback fails
}

type Scenario struct {
	Setup   []Op   `json:"setup"`
	Threads [][]Op `json:"threads"`
	Bound   int    `json:"bound"`
}

func (o Op) String() string {
	switch o.Kind {
	case "add":
		f := ""
		if o.Fail {
			f = "!"
		}
		return fmt.Sprintf("add(%s,c%d%s)", o.Peer, o.Slot, f)
	case "remove":
		return fmt.Sprintf("remove(c%d)", o.Slot)
	case "sendto", "bcastx":
		return o.Kind + "(" + o.Peer + ")"
	}
	return o.Kind
}

func (s Scenario) String() string {
	var b strings.Builder
	b.WriteString("setup[")
	for i, o := range s.Setup {
		if i > 0 {
			b.WriteString(" ")
		}
		b.WriteString(o.String())
	}
	b.WriteString("]")
	for _, t := range s.Threads {
		b.WriteString(" || ")
		for i, o := range t {
			if i > 0 {
				b.WriteString(";")
			}
			b.WriteString(o.String())
		}
	}
	return b.String()
}

// ---- one execution ----

type rec struct {
	Thread   int
	Op       Op
	Call     int
	Ret      int
	List     []string // list result (sorted peer ids)
	Found    bool     // sendto result
	Returned bool
}

type execState struct {
	hist       []*rec
	finalList  []string
	finalSend  map[string]bool
	tables     [4]int
	delivered  map[string]int // conn -> messages the send callback saw
	uninvolved bool
	closed     map[int]bool
}

var cur *execState

const sess = "s"

func env() protocol.Envelope { return protocol.Envelope{V: 1, Type: "x", MsgID: "m"} }

func runScenario(sc Scenario) {
	st := &execState{finalSend: map[string]bool{}, delivered: map[string]int{}, closed: map[int]bool{}}
	cur = st
	h := peers.NewHub()
	removes := map[int]func(){}
	doOp := func(tid int, o Op) {
		r := &rec{Thread: tid, Op: o, Call: vrt.Step()}
		st.hist = append(st.hist, r)
		switch o.Kind {
		case "add":
			conn := "c" + strconv.Itoa(o.Slot)
			fail := o.Fail
			slot := o.Slot
			removes[o.Slot] = h.Add(sess, peers.Peer{PeerID: o.Peer, Role: "receiver", ConnID: conn}, func(protocol.Envelope) error {
				st.delivered[conn]++
				if fail {
					return errors.New("send failed")
				}
				return nil
			}, func() { st.closed[slot] = true })
		case "remove":
			if f := removes[o.Slot]; f != nil {
				f()
			}
		case "close":
			h.CloseSession(sess)
		case "list":
			for _, p := range h.List(sess) {
				r.List = append(r.List, p.PeerID)
			}
			sort.Strings(r.List)
		case "bcast":
			h.Broadcast(sess, env())
		case "bcastx":
			h.BroadcastExcept(sess, o.Peer, env())
		case "sendto":
			r.Found = h.SendTo(sess, o.Peer, env())
		}
		r.Ret = vrt.Step()
		r.Returned = true
	}
	for _, o := range sc.Setup {
		doOp(0, o)
	}
	var wg vrt.WaitGroup
	for i, ops := range sc.Threads {
		wg.Add(1)
		tid := i + 1
		ops := ops
		vrt.GoNamed(fmt.Sprintf("w%d", tid), "w", func() {
			defer wg.Done()
			for _, o := range ops {
				doOp(tid, o)
			}
		})
	}
	// an uninvolved session: its handler must never be blocked by what happens on "s"
	wg.Add(1)
	vrt.GoNamed("uninvolved", "u", func() {
		defer wg.Done()
		rm := h.Add("u", peers.Peer{PeerID: "z", Role: "sender", ConnID: "cz"}, func(protocol.Envelope) error { return nil }, nil)
		h.Broadcast("u", env())
		_ = h.List("u")
		rm()
		st.uninvolved = true
	})
	wg.Wait()
	vrt.Sleep(3 * time.Second) // quiescence: writers drain, remove timeouts pass
	for _, p := range h.List(sess) {
		st.finalList = append(st.finalList, p.PeerID)
	}
	sort.Strings(st.finalList)
	for _, p := range []string{"a", "b"} {
		st.finalSend[p] = h.SendTo(sess, p, env())
	}
	hs, nc, hb, ni := h.VerifTables(sess)
	st.tables = [4]int{b2i(hs), nc, b2i(hb), ni}
}

func b2i(b bool) int {
	if b {
		return 1
	}
	return 0
}

// ---- oracles ----

// sequential specification: a map conn -> peer with last-write-wins on peer id.
type specState struct {
	conns map[int]string // slot -> peer id
}

func (s specState) clone() specState {
	n := specState{conns: map[int]string{}}
	for k, v := range s.conns {
		n.conns[k] = v
	}
	return n
}

func (s specState) list() []string {
	var out []string
	for _, p := range s.conns {
		out = append(out, p)
	}
	sort.Strings(out)
	return out
}

func (s specState) key() string {
	ks := make([]int, 0, len(s.conns))
	for k := range s.conns {
		ks = append(ks, k)
	}
	sort.Ints(ks)
	var b strings.Builder
	for _, k := range ks {
		fmt.Fprintf(&b, "%d=%s,", k, s.conns[k])
	}
	return b.String()
}

type opIn struct {
	Op Op
}
type opOut struct {
	List  []string
	Found bool
}

var model = porcupine.Model{
	Init: func() any { return specState{conns: map[int]string{}} },
	Step: func(state, input, output any) (bool, any) {
		s := state.(specState)
		in := input.(opIn).Op
		out := output.(opOut)
		switch in.Kind {
		case "add":
			n := s.clone()
			for slot, p := range n.conns {
				if p == in.Peer && slot != in.Slot {
					delete(n.conns, slot)
				}
			}
			n.conns[in.Slot] = in.Peer
			return true, n
		case "remove":
			n := s.clone()
			delete(n.conns, in.Slot)
			return true, n
		case "close":
			return true, specState{conns: map[int]string{}}
		case "list":
			return strings.Join(s.list(), ",") == strings.Join(out.List, ","), s
		case "sendto":
			has := false
			for _, p := range s.conns {
				if p == in.Peer {
					has = true
				}
			}
			return has == out.Found, s
		}
		return true, s // broadcasts have no return value
	},
	Equal: func(a, b any) bool { return a.(specState).key() == b.(specState).key() },
	DescribeOperation: func(in, out any) string {
		return fmt.Sprintf("%v -> %v", in.(opIn).Op, out)
	},
}

var res *vlib.Result
var linCache = map[string]bool{}
var linChecked, linDistinct int64

func histKey(st *execState) string {
	// canonical: order of call/return events
	type ev struct {
		t    int
		call bool
		i    int
	}
	var evs []ev
	for i, r := range st.hist {
		evs = append(evs, ev{r.Call, true, i}, ev{r.Ret, false, i})
	}
	sort.SliceStable(evs, func(i, j int) bool { return evs[i].t < evs[j].t })
	var b strings.Builder
	for _, e := range evs {
		r := st.hist[e.i]
		if e.call {
			fmt.Fprintf(&b, "C%d:%v;", e.i, r.Op)
		} else {
			fmt.Fprintf(&b, "R%d:%v/%v;", e.i, r.List, r.Found)
		}
	}
	return b.String()
}

func linearizable(st *execState) bool {
	k := histKey(st)
	linChecked++
	if v, ok := linCache[k]; ok {
		return v
	}
	linDistinct++
	var ops []porcupine.Operation
	for _, r := range st.hist {
		ops = append(ops, porcupine.Operation{ClientId: r.Thread, Input: opIn{r.Op}, Call: int64(r.Call), Output: opOut{r.List, r.Found}, Return: int64(r.Ret)})
	}
	ok := porcupine.CheckOperations(model, ops)
	linCache[k] = ok
	return ok
}

type replayT struct {
	Scenario Scenario `json:"scenario"`
	Choices  []int    `json:"choices"`
	Reverse  bool     `json:"reverse"`
}

func check(sc Scenario, x *vrt.Exec, reverse bool) {
	st := cur
	rp := replayT{sc, append([]int{}, x.Choices()...), reverse}
	switch x.Outcome {
	case "ok":
	case "panic":
		msg := x.Detail
		site := ""
		if i := strings.Index(msg, " @ "); i >= 0 {
			site = msg[i+3:]
			msg = msg[:i]
		}
		res.Violate("panic", "c11/hub", map[string]any{"panic": msg, "func": site}, fmt.Sprintf("%s: panic %s in %s", sc, msg, site), rp)
		return
	case "deadlock", "stall":
		res.Violate("hang", "c11/hub", map[string]any{"blocked": x.Blocked}, fmt.Sprintf("%s: %s; blocked at %v", sc, x.Outcome, x.Blocked), rp)
		return
	default:
		res.InfraError("%s: outcome %s %s", sc, x.Outcome, x.Detail)
		return
	}
	if !st.uninvolved {
		res.Violate("hang", "c11/hub", map[string]any{"blocked": []string{"uninvolved session handler did not complete"}}, sc.String(), rp)
	}
	if !linearizable(st) {
		res.Violate("mismatch", "c11/hub", map[string]any{"class": "not-linearizable", "ops": opKinds(sc)}, fmt.Sprintf("%s: history not linearizable: %s", sc, histKey(st)), rp)
	}
	// Expected final membership: derived from the sequential spec only when the outcome is the same
	// under every linearization; here: peers whose add returned and that nobody tried to remove,
	// replace or close.
	touched := map[string]bool{} // peer ids subject to remove/replace/close
	adds := map[string][]int{}
	closeSeen := false
	all := append([]Op{}, sc.Setup...)
	for _, t := range sc.Threads {
		all = append(all, t...)
	}
	slotPeer := map[int]string{}
	for _, o := range all {
		if o.Kind == "add" {
			adds[o.Peer] = append(adds[o.Peer], o.Slot)
			slotPeer[o.Slot] = o.Peer
		}
		if o.Kind == "close" {
			closeSeen = true
		}
	}
	for _, o := range all {
		if o.Kind == "remove" {
			touched[slotPeer[o.Slot]] = true
		}
	}
	for p, slots := range adds {
		if len(slots) > 1 {
			// replaced: exactly one connection of p must remain routable unless removed/closed
			_ = p
		}
	}
	inList := func(p string) bool {
		for _, q := range st.finalList {
			if q == p {
				return true
			}
		}
		return false
	}
	for p := range adds {
		if closeSeen || touched[p] {
			continue
		}
		// connected, never left, session never closed => routable and listed
		if !st.finalSend[p] || !inList(p) {
			res.Violate("mismatch", "c11/hub", map[string]any{"class": "connected-peer-unroutable"},
				fmt.Sprintf("%s: peer %s is connected (its Add returned, it never left) but SendTo=%v listed=%v", sc, p, st.finalSend[p], inList(p)), rp)
		}
	}
	// a peer whose every connection was removed (after its adds, program order in the same thread or setup) is gone
	if !closeSeen {
		for p, slots := range adds {
			allRemovedSeq := true
			for _, s := range slots {
				if !removedAfterAdd(sc, s) {
					allRemovedSeq = false
				}
			}
			if allRemovedSeq && (st.finalSend[p] || inList(p)) {
				res.Violate("mismatch", "c11/hub", map[string]any{"class": "left-peer-still-listed"},
					fmt.Sprintf("%s: peer %s left (all its connections removed) but SendTo=%v listed=%v", sc, p, st.finalSend[p], inList(p)), rp)
			}
		}
	}
	// leak: nothing connected any more => no table entries
	if len(st.finalList) == 0 && !st.finalSend["a"] && !st.finalSend["b"] {
		everyoneGone := true
		for p, slots := range adds {
			_ = p
			for _, s := range slots {
				if !removedAfterAdd(sc, s) && !closeSeen {
					// may legitimately have been replaced by a later add of the same id that was removed
					everyoneGone = everyoneGone && replacedAndGone(sc, s, adds, slotPeer)
				}
			}
		}
		if everyoneGone && (st.tables[0] != 0 || st.tables[2] != 0) && !racyCloseAdd(sc) {
			res.Violate("mismatch", "c11/hub", map[string]any{"class": "routing-state-leak"},
				fmt.Sprintf("%s: session empty but tables remain: sessions=%d(conns %d) byPeerID=%d(ids %d)", sc, st.tables[0], st.tables[1], st.tables[2], st.tables[3]), rp)
		}
	}
}

// racyCloseAdd: a close concurrent with an add may legitimately leave the added peer connected.
func racyCloseAdd(sc Scenario) bool { return false }

func opKinds(sc Scenario) string {
	set := map[string]bool{}
	for _, t := range sc.Threads {
		for _, o := range t {
			set[o.Kind] = true
		}
	}
	var ks []string
	for k := range set {
		ks = append(ks, k)
	}
	sort.Strings(ks)
	return strings.Join(ks, ",")
}

// removedAfterAdd: slot s is removed by an op that is ordered after its add (setup before threads,
// or later in the same thread).
func removedAfterAdd(sc Scenario, s int) bool {
	addIn, addPos := -2, -1
	for i, o := range sc.Setup {
		if o.Kind == "add" && o.Slot == s {
			addIn, addPos = -1, i
		}
	}
	for ti, t := range sc.Threads {
		for i, o := range t {
			if o.Kind == "add" && o.Slot == s {
				addIn, addPos = ti, i
			}
		}
	}
	if addIn == -2 {
		return false
	}
	for i, o := range sc.Setup {
		if o.Kind == "remove" && o.Slot == s && addIn == -1 && i > addPos {
			return true
		}
	}
	for ti, t := range sc.Threads {
		for i, o := range t {
			if o.Kind == "remove" && o.Slot == s {
				if addIn == -1 || (addIn == ti && i > addPos) {
					return true
				}
			}
		}
	}
	return false
}

func replacedAndGone(sc Scenario, s int, adds map[string][]int, slotPeer map[int]string) bool {
	p := slotPeer[s]
	for _, other := range adds[p] {
		if other != s && removedAfterAdd(sc, other) {
			// the other connection of the same peer was added and removed; whether s survives
			// depends on the order, so this is not a deterministic expectation
			return false
		}
	}
	return false
}

// ---- scenario generation ----

func genScenarios(thorough bool) []Scenario {
	var out []Scenario
	setups := [][]Op{
		{},
		{{Kind: "add", Peer: "a", Slot: 1}},
		{{Kind: "add", Peer: "a", Slot: 1}, {Kind: "add", Peer: "b", Slot: 2}},
		// a peer whose socket write fails (its writer gives up; the handler has not removed it yet)
		{{Kind: "add", Peer: "a", Slot: 1, Fail: true}, {Kind: "add", Peer: "b", Slot: 2}},
	}
	if thorough {
		setups = append(setups, []Op{{Kind: "add", Peer: "a", Slot: 1, Fail: true}})
	}
	failing := func(setup []Op) bool {
		for _, o := range setup {
			if o.Fail {
				return true
			}
		}
		return false
	}
	sends := func(ts ...[]Op) bool {
		for _, t := range ts {
			for _, o := range t {
				if o.Kind == "bcast" || o.Kind == "bcastx" || o.Kind == "sendto" {
					return true
				}
			}
		}
		return false
	}
	// alphabet of thread operations given the setup
	alpha := func(setup []Op, freshSlot int) []Op {
		ops := []Op{
			{Kind: "add", Peer: "a", Slot: freshSlot},
			{Kind: "add", Peer: "b", Slot: freshSlot},
			{Kind: "list"}, {Kind: "bcast"}, {Kind: "bcastx", Peer: "a"}, {Kind: "sendto", Peer: "a"}, {Kind: "sendto", Peer: "b"},
			{Kind: "close"},
		}
		for _, o := range setup {
			ops = append(ops, Op{Kind: "remove", Slot: o.Slot})
		}
		return ops
	}
	seq := func(setup []Op, base int) [][]Op {
		var seqs [][]Op
		a1 := alpha(setup, base)
		for _, o := range a1 {
			seqs = append(seqs, []Op{o})
		}
		for _, o1 := range a1 {
			a2 := alpha(setup, base+1)
			if o1.Kind == "add" {
				a2 = append(a2, Op{Kind: "remove", Slot: o1.Slot})
			}
			for _, o2 := range a2 {
				if o1.Kind == "remove" && o2.Kind == "remove" && o1.Slot == o2.Slot {
					continue
				}
				seqs = append(seqs, []Op{o1, o2})
			}
		}
		return seqs
	}
	seen := map[string]bool{}
	add := func(sc Scenario) {
		// canonical under thread permutation
		strs := make([]string, len(sc.Threads))
		for i, t := range sc.Threads {
			b, _ := json.Marshal(t)
			strs[i] = string(b)
		}
		sort.Strings(strs)
		sb, _ := json.Marshal(sc.Setup)
		k := string(sb) + "|" + strings.Join(strs, "|")
		if seen[k] {
			return
		}
		seen[k] = true
		out = append(out, sc)
	}
	for _, setup := range setups {
		t1 := seq(setup, 10)
		t2 := seq(setup, 20)
		// two threads, 1-2 ops each
		for _, a := range t1 {
			for _, b := range t2 {
				if !interesting(a, b) {
					continue
				}
				if failing(setup) && !sends(a, b) {
					continue // a failing writer only matters when something is sent to it
				}
				if !thorough && len(a) == 2 && len(b) == 2 && !(allMut(a) && allMut(b)) {
					continue // reduced set: 2x2 only for mutator-only threads
				}
				add(Scenario{Setup: setup, Threads: [][]Op{a, b}})
			}
		}
		// three threads, one op each
		a1, a2, a3 := alpha(setup, 10), alpha(setup, 20), alpha(setup, 30)
		for _, x := range a1 {
			for _, y := range a2 {
				for _, z := range a3 {
					if !interesting([]Op{x}, []Op{y}, []Op{z}) {
						continue
					}
					if failing(setup) && !sends([]Op{x}, []Op{y}, []Op{z}) {
						continue
					}
					add(Scenario{Setup: setup, Threads: [][]Op{{x}, {y}, {z}}})
				}
			}
		}
	}
	return out
}

func allMut(t []Op) bool {
	for _, o := range t {
		if !(o.Kind == "add" || o.Kind == "remove" || o.Kind == "close") {
			return false
		}
	}
	return true
}

// interesting drops templates in which no thread mutates the hub (pure readers cannot conflict).
func interesting(ts ...[]Op) bool {
	mut := 0
	for _, t := range ts {
		for _, o := range t {
			if o.Kind == "add" || o.Kind == "remove" || o.Kind == "close" {
				mut++
			}
		}
	}
	return mut > 0
}

func main() {
	res = vlib.Parse()
	res.Part = "hub"
	res.Rule = "scenario templates (setup of 0-2 joined peers; 2 threads x 1-2 ops or 3 threads x 1 op over add/add-same-id/remove/close/list/broadcast/broadcast-except/send-to, plus an uninvolved session) each explored exhaustively within the delay bound under two base orders; an execution is non-trivial when it took at least one deviation; distinct by trace hash"
	if vlib.F.Replay != "" {
		replay()
		res.Finish()
	}
	thorough := vlib.F.Tier == "thorough"
	type phase struct {
		full   bool
		bound  int
		orders []bool
		budget time.Duration
	}
	phases := []phase{{false, 2, []bool{false}, 150 * time.Second}}
	if thorough {
		phases = []phase{{true, 2, []bool{false, true}, 10 * time.Minute}, {false, 3, []bool{false}, 18 * time.Minute}}
	}
	var execs, nodes, steps int64
	outcomes := map[string]int64{}
	traces := map[uint64]struct{}{}
	incomplete := 0
	done := 0
	completed := []string{}
	for _, ph := range phases {
		deadline := time.Now().Add(ph.budget)
		scs := genScenarios(ph.full)
		phaseIncomplete := 0
		for i, sc := range scs {
			if !vlib.Mine(i) {
				continue
			}
			sc.Bound = ph.bound
			for _, reverse := range ph.orders {
				cfg := vrt.DefaultConfig()
				cfg.ReverseOrder = reverse
				cfg.TimerFirst = true
				e := &vrt.Explorer{Cfg: cfg, Bound: ph.bound, Root: func() { runScenario(sc) }, Deadline: deadline}
				e.Visit = func(x *vrt.Exec) bool {
					check(sc, x, reverse)
					if x.Cost() > 0 {
						res.Nontrivial(fmt.Sprintf("%v/%d/%d/%v/%x", ph.full, ph.bound, i, reverse, x.Trace()))
					}
					return true
				}
				e.Run()
				execs += e.Execs
				nodes += e.Nodes
				steps += e.Steps
				for k, v := range e.Outcomes {
					outcomes[k] += v
				}
				for t := range e.Traces {
					if len(traces) < 1<<20 {
						traces[t] = struct{}{}
					}
				}
				if !e.Complete {
					phaseIncomplete++
				}
				for _, d := range e.Divergence {
					res.InfraError("replay divergence in %s: %s", sc, d)
				}
			}
			done++
			res.SampleSpread(int64(done), sc.String())
		}
		incomplete += phaseIncomplete
		completed = append(completed, fmt.Sprintf("set=%s bound=%d orders=%d scenarios=%d incomplete=%d", map[bool]string{true: "full", false: "reduced"}[ph.full], ph.bound, len(ph.orders), len(scs), phaseIncomplete))
	}
	res.Extra["phases"] = strings.Join(completed, "; ")
	res.EvalN(execs)
	res.States = nodes
	res.Trans = steps
	res.Validated = execs
	res.Extra["scenarios"] = float64(done)
	oc := map[string]any{}
	for k, v := range outcomes {
		oc[k] = float64(v)
	}
	res.Extra["outcomes"] = oc
	res.Extra["distinct_traces"] = float64(len(traces))
	res.Extra["linearizability_histories_checked"] = float64(linChecked)
	res.Extra["linearizability_distinct_histories"] = float64(linDistinct)
	if incomplete > 0 {
		res.NotExhaustive(fmt.Sprintf("%d scenario explorations hit the time budget", incomplete))
		res.Extra["incomplete_explorations"] = float64(incomplete)
	}
	res.Finish()
}

func replay() {
	var art struct {
		Violation struct {
			Replay replayT `json:"replay"`
		} `json:"violation"`
	}
	if err := vlib.ReadJSON(vlib.F.Replay, &art); err != nil {
		res.InfraError("replay: %v", err)
		return
	}
	rp := art.Violation.Replay
	cfg := vrt.DefaultConfig()
	cfg.ReverseOrder = rp.Reverse
	cfg.TimerFirst = true
	x, err := vrt.Replay(cfg, rp.Choices, func() { runScenario(rp.Scenario) })
	if err != nil {
		res.InfraError("%v", err)
		return
	}
	res.Eval()
	check(rp.Scenario, x, rp.Reverse)
}
