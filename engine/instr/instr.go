// Package instr is the source instrumenter of engine E1 (see DESIGN.md §2.1).
package instr

import "fmt"

type Config struct {
	RepoDir  string
	OutDir   string
	Overlay  map[string]string
	Env      []string
	Patterns []string
	Probes   []string
}

// Run instruments the packages and returns the overlay including rewritten files.
func Run(cfg Config) (map[string]string, error) {
	return nil, fmt.Errorf("instrumenter not built yet")
}
