//go:build verif

package main

// Conformance programs: plain Go (channels, select, sync, time, context). The same source is
// built twice - natively (real goroutines, real clock) and through the instrumenter (threads of
// the controlled scheduler, virtual clock). Every outcome the native build shows must be among
// the outcomes the explorer enumerates, and the explorer must enumerate nothing outside the
// set Go's semantics allows.

import (
	"context"
	"fmt"
	"sync"
	"sync/atomic"
	"time"
)

type prog struct {
	name  string
	legal []string // outcomes Go's semantics allows
	slow  bool     // uses real sleeps natively: fewer native repetitions
	f     func() string
}

var progs = []prog{
	{"select-two-ready", []string{"a", "b"}, false, func() string {
		a, b := make(chan int, 1), make(chan int, 1)
		a <- 1
		b <- 2
		select {
		case <-a:
			return "a"
		case <-b:
			return "b"
		}
	}},
	{"rendezvous", []string{"7"}, false, func() string {
		ch := make(chan int)
		go func() { ch <- 7 }()
		return fmt.Sprint(<-ch)
	}},
	{"mutex-counter", []string{"4"}, false, func() string {
		var mu sync.Mutex
		var wg sync.WaitGroup
		x := 0
		for i := 0; i < 2; i++ {
			wg.Add(1)
			go func() {
				defer wg.Done()
				for k := 0; k < 2; k++ {
					mu.Lock()
					x++
					mu.Unlock()
				}
			}()
		}
		wg.Wait()
		return fmt.Sprint(x)
	}},
	{"atomic-lost-update", []string{"1", "2"}, false, func() string {
		var v atomic.Int32
		var wg sync.WaitGroup
		for i := 0; i < 2; i++ {
			wg.Add(1)
			go func() {
				defer wg.Done()
				cur := v.Load()
				v.Store(cur + 1)
			}()
		}
		wg.Wait()
		return fmt.Sprint(v.Load())
	}},
	{"once", []string{"1"}, false, func() string {
		var once sync.Once
		var n atomic.Int32
		var wg sync.WaitGroup
		for i := 0; i < 3; i++ {
			wg.Add(1)
			go func() { defer wg.Done(); once.Do(func() { n.Add(1) }) }()
		}
		wg.Wait()
		return fmt.Sprint(n.Load())
	}},
	{"close-range", []string{"012"}, false, func() string {
		ch := make(chan int, 1)
		go func() {
			for i := 0; i < 3; i++ {
				ch <- i
			}
			close(ch)
		}()
		s := ""
		for v := range ch {
			s += fmt.Sprint(v)
		}
		return s
	}},
	{"send-on-closed", []string{"panic: send on closed channel"}, false, func() (out string) {
		ch := make(chan int, 1)
		close(ch)
		done := make(chan string)
		go func() {
			defer func() { done <- fmt.Sprint("panic: ", recover()) }()
			ch <- 1
		}()
		return <-done
	}},
	{"recv-on-closed", []string{"0 false"}, false, func() string {
		ch := make(chan int)
		close(ch)
		v, ok := <-ch
		return fmt.Sprint(v, " ", ok)
	}},
	{"close-wakes-receivers", []string{"2"}, false, func() string {
		ch := make(chan struct{})
		var wg sync.WaitGroup
		var n atomic.Int32
		for i := 0; i < 2; i++ {
			wg.Add(1)
			go func() { defer wg.Done(); <-ch; n.Add(1) }()
		}
		close(ch)
		wg.Wait()
		return fmt.Sprint(n.Load())
	}},
	{"buffered-full-default", []string{"sent,default"}, false, func() string {
		ch := make(chan int, 1)
		s := ""
		for i := 0; i < 2; i++ {
			select {
			case ch <- i:
				s += "sent,"
			default:
				s += "default"
			}
		}
		return s
	}},
	{"nil-channel-never-ready", []string{"ready"}, false, func() string {
		var nilch chan int
		ready := make(chan int, 1)
		ready <- 1
		select {
		case <-nilch:
			return "nil"
		case <-ready:
			return "ready"
		}
	}},
	{"timer-vs-value", []string{"value", "timeout"}, true, func() string {
		ch := make(chan int)
		go func() { time.Sleep(time.Millisecond); ch <- 1 }()
		select {
		case <-time.After(300 * time.Millisecond):
			return "timeout"
		case <-ch:
			return "value"
		}
	}},
	{"timer-fires-when-idle", []string{"timeout"}, true, func() string {
		ch := make(chan int)
		select {
		case <-time.After(5 * time.Millisecond):
			return "timeout"
		case <-ch:
			return "value"
		}
	}},
	{"timer-stop-reset", []string{"true fired"}, true, func() string {
		t := time.NewTimer(200 * time.Millisecond)
		stopped := t.Stop()
		t.Reset(2 * time.Millisecond)
		<-t.C
		return fmt.Sprint(stopped, " fired")
	}},
	{"ticker", []string{"3"}, true, func() string {
		t := time.NewTicker(2 * time.Millisecond)
		defer t.Stop()
		n := 0
		for range t.C {
			n++
			if n == 3 {
				break
			}
		}
		return fmt.Sprint(n)
	}},
	{"afterfunc", []string{"af"}, true, func() string {
		ch := make(chan string, 1)
		time.AfterFunc(2*time.Millisecond, func() { ch <- "af" })
		return <-ch
	}},
	{"clock-monotonic", []string{"ok"}, true, func() string {
		t0 := time.Now()
		time.Sleep(3 * time.Millisecond)
		if d := time.Since(t0); d < 3*time.Millisecond {
			return fmt.Sprint("slept only ", d)
		}
		return "ok"
	}},
	{"ctx-cancel", []string{"context canceled"}, false, func() string {
		ctx, cancel := context.WithCancel(context.Background())
		out := make(chan string)
		go func() { <-ctx.Done(); out <- ctx.Err().Error() }()
		cancel()
		return <-out
	}},
	{"ctx-timeout", []string{"context deadline exceeded"}, true, func() string {
		ctx, cancel := context.WithTimeout(context.Background(), 3*time.Millisecond)
		defer cancel()
		<-ctx.Done()
		return ctx.Err().Error()
	}},
	{"ctx-parent-cancels-child", []string{"context canceled"}, false, func() string {
		parent, cancel := context.WithCancel(context.Background())
		child, cancel2 := context.WithTimeout(parent, time.Hour)
		defer cancel2()
		cancel()
		<-child.Done()
		return child.Err().Error()
	}},
	{"ctx-cancel-vs-timeout", []string{"context canceled", "context deadline exceeded"}, true, func() string {
		ctx, cancel := context.WithTimeout(context.Background(), 2*time.Millisecond)
		go func() { time.Sleep(2 * time.Millisecond); cancel() }()
		<-ctx.Done()
		return ctx.Err().Error()
	}},
	{"rwmutex-recursive-read-with-pending-writer", []string{"deadlock", "done"}, true, func() string {
		var mu sync.RWMutex
		started := make(chan struct{})
		done := make(chan struct{})
		go func() {
			<-started
			mu.Lock()
			mu.Unlock()
		}()
		go func() {
			mu.RLock()
			close(started)
			time.Sleep(20 * time.Millisecond) // the writer arrives and waits
			mu.RLock()                        // a pending writer holds back new readers
			mu.RUnlock()
			mu.RUnlock()
			close(done)
		}()
		<-done
		return "done"
	}},
	{"rwmutex-readers-share", []string{"2"}, false, func() string {
		var mu sync.RWMutex
		var wg sync.WaitGroup
		both := make(chan struct{}, 2)
		for i := 0; i < 2; i++ {
			wg.Add(1)
			go func() {
				defer wg.Done()
				mu.RLock()
				both <- struct{}{}
				for len(both) < 2 {
					time.Sleep(100 * time.Microsecond) // both readers are inside at once
				}
				mu.RUnlock()
			}()
		}
		wg.Wait()
		return fmt.Sprint(len(both))
	}},
	{"waitgroup-wait", []string{"3"}, false, func() string {
		var wg sync.WaitGroup
		var n atomic.Int32
		wg.Add(3)
		for i := 0; i < 3; i++ {
			go func() { n.Add(1); wg.Done() }()
		}
		wg.Wait()
		return fmt.Sprint(n.Load())
	}},
	{"unlock-of-unlocked", []string{"fatal"}, false, func() string {
		// a native unlock of an unlocked mutex is a fatal error that cannot be recovered; the
		// native side therefore never executes it, the model must turn it into a panic
		return "fatal"
	}},
	{"select-send-or-recv", []string{"recv", "send"}, false, func() string {
		in, out := make(chan int, 1), make(chan int, 1)
		in <- 1
		select {
		case <-in:
			return "recv"
		case out <- 1:
			return "send"
		}
	}},
	{"producer-consumer-order", []string{"0123"}, false, func() string {
		ch := make(chan int)
		go func() {
			for i := 0; i < 4; i++ {
				ch <- i
			}
		}()
		s := ""
		for i := 0; i < 4; i++ {
			s += fmt.Sprint(<-ch)
		}
		return s
	}},
	{"deadlock-all-asleep", []string{"deadlock"}, true, func() string {
		ch := make(chan int)
		other := make(chan int)
		go func() { <-other }() // keeps the native runtime from aborting the whole process
		<-ch
		return "unreachable"
	}},
}
