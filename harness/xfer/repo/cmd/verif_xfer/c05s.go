//go:build verif

package main

import (
	"fmt"
	"os"
	"path/filepath"
	"time"

	"github.com/sheerbytes/sheerbytes/internal/transfer"
	"github.com/sheerbytes/sheerbytes/internal/verif/vlib"
	vrt "github.com/sheerbytes/sheerbytes/internal/verif/vrt"
)

// C05, metadata-level part: one real Sidecar under the parties that flush it in production - the
// stream reader that marks chunks and flushes when the file is complete, the periodic flusher,
// and the flush-all the application runs on SIGINT - with every interleaving within the bound
// and the disk inspected at every file-system point (split writes), i.e. at every instant a
// kill could leave behind. The whole-transfer part cannot afford the depth this needs.

type FlushersCase struct {
	Chunks   int  `json:"chunks"`
	Ticks    int  `json:"ticks"`    // flushes by the periodic flusher
	Sigint   bool `json:"sigint"`   // a flush-all thread
	MidFlush bool `json:"midflush"` // the reader also flushes after the first half (1 s ticker in the reader's path)
}

func (c FlushersCase) String() string {
	return fmt.Sprintf("chunks=%d periodic-flushes=%d sigint=%v reader-mid-flush=%v", c.Chunks, c.Ticks, c.Sigint, c.MidFlush)
}

type flushersOut struct {
	viol    []string
	violCls []string
	points  int
}

var c05sCur *flushersOut

func (o *flushersOut) violate(cls, msg string) {
	for _, c := range o.violCls {
		if c == cls {
			return
		}
	}
	o.violCls = append(o.violCls, cls)
	o.viol = append(o.viol, msg)
}

func runFlushers(c FlushersCase) {
	o := &flushersOut{}
	c05sCur = o
	dir := filepath.Join(scratch, "sc")
	os.RemoveAll(dir)
	os.MkdirAll(dir, 0755)
	const chunk = 4
	id := "0123456789abcdef"
	path := transfer.SidecarPath(dir, "", id)
	vrt.FsHook = nil
	sc, err := transfer.CreateSidecar(path, id, int64(c.Chunks*chunk), chunk)
	if err != nil {
		o.violate("create-failed", err.Error())
		return
	}
	written := map[uint32]bool{} // chunks whose write into the data file has returned
	hadReadable := false
	var prev []byte
	check := func(where string) {
		o.points++
		l, err := transfer.LoadSidecar(path)
		if err != nil {
			if hadReadable {
				o.violate("metadata-lost", fmt.Sprintf("at %s: a readable version existed, now the metadata file does not load (%v): a kill here loses the previous valid version", where, err))
			}
			return
		}
		hadReadable = true
		bm := l.VerifBitmap()
		for i := 0; i < c.Chunks; i++ {
			if i/8 < len(bm) && bm[i/8]&(1<<uint(i%8)) != 0 && !written[uint32(i)] {
				o.violate("claims-unwritten-chunk", fmt.Sprintf("at %s: the metadata on disk marks chunk %d whose write has not returned", where, i))
			}
		}
		for j := range prev {
			if j >= len(bm) || prev[j]&^bm[j] != 0 {
				o.violate("metadata-regressed", fmt.Sprintf("at %s: the metadata on disk lost bits it had before (%x -> %x)", where, prev, bm))
			}
		}
		prev = append([]byte(nil), bm...)
	}
	vrt.FsHook = func(op, p, phase string) error {
		if vrt.CurrentGroup() != "R" {
			return nil
		}
		check(op + ":" + phase + ":" + filepath.Base(p))
		return nil
	}
	flush := func(who string) {
		if err := sc.Flush(); err != nil {
			o.violate("flush-failed", fmt.Sprintf("%s: Flush returned %v", who, err))
		}
	}
	var wg vrt.WaitGroup
	wg.Add(1)
	vrt.GoNamed("reader", "R", func() {
		defer wg.Done()
		for i := 0; i < c.Chunks; i++ {
			written[uint32(i)] = true
			sc.MarkComplete(uint32(i))
			if c.MidFlush && i == c.Chunks/2-1 {
				flush("reader (mid-file)")
			}
		}
		flush("reader (file complete)")
	})
	if c.Ticks > 0 {
		wg.Add(1)
		vrt.GoNamed("periodic", "R", func() {
			defer wg.Done()
			for k := 0; k < c.Ticks; k++ {
				flush("periodic flusher")
			}
		})
	}
	if c.Sigint {
		wg.Add(1)
		vrt.GoNamed("sigint", "R", func() {
			defer wg.Done()
			flush("flush-all on SIGINT")
		})
	}
	wg.Wait()
	vrt.FsHook = nil
	// everything has been flushed by somebody: the final image must be complete
	l, err := transfer.LoadSidecar(path)
	if err != nil {
		o.violate("metadata-lost", fmt.Sprintf("after all flushes returned the metadata file does not load: %v", err))
		return
	}
	bm := l.VerifBitmap()
	for i := 0; i < c.Chunks; i++ {
		if i/8 >= len(bm) || bm[i/8]&(1<<uint(i%8)) == 0 {
			o.violate("final-image-stale", fmt.Sprintf("every chunk was marked and the last flush returned, but the metadata on disk misses chunk %d (bitmap %x): an older image replaced a newer one", i, bm))
			break
		}
	}
}

func checkFlushers(c FlushersCase, x *vrt.Exec) {
	rp := replayT{Mode: "c05s", Choices: append([]int{}, x.Choices()...), Extra: vlib.JSON(c)}
	switch x.Outcome {
	case "ok":
	case "panic":
		res.Violate("panic", "xfer/c05", map[string]any{"panic": x.Detail}, fmt.Sprintf("%s: panic %s", c, x.Detail), rp)
		return
	case "deadlock", "stall":
		res.Violate("hang", "xfer/c05", map[string]any{"class": "flushers-deadlock"}, fmt.Sprintf("%s: %s %v", c, x.Outcome, x.Blocked), rp)
		return
	default:
		res.InfraError("%s: outcome %s %s", c, x.Outcome, x.Detail)
		return
	}
	o := c05sCur
	for i, msg := range o.viol {
		res.Violate("invariant", "xfer/c05", map[string]any{"class": o.violCls[i], "level": "sidecar-under-concurrent-flushers"}, fmt.Sprintf("%s: %s", c, msg), rp)
	}
}

func c05sCfg() vrt.Config {
	cfg := baseCfg()
	cfg.LockPoints = true
	cfg.TimerFirst = false
	return cfg
}

func modeC05S() {
	res.Rule = "one real Sidecar marked by a reader thread and flushed concurrently by the reader (file complete, optionally mid-file), the periodic flusher (1-2 flushes) and the SIGINT flush-all; every interleaving within the delay bound with mutex acquisitions and every file-system step (split writes, rename) as scheduling points; at every file-system point the metadata file on disk must load if it ever did, must mark only chunks whose write returned, and must not lose bits; the final image must be complete; non-trivial = distinct (case, trace)"
	thorough := vlib.F.Tier == "thorough"
	st := newStats()
	budget := 60 * time.Second
	if thorough {
		budget = 20 * time.Minute
	}
	deadline := time.Now().Add(budget)
	bound := 3
	if thorough {
		bound = 4
	}
	var cases []FlushersCase
	for _, chunks := range []int{2, 4} {
		for _, ticks := range []int{0, 1, 2} {
			for _, sig := range []bool{false, true} {
				for _, mid := range []bool{false, true} {
					if ticks == 0 && !sig {
						continue // a single flusher: nothing to interleave
					}
					cases = append(cases, FlushersCase{Chunks: chunks, Ticks: ticks, Sigint: sig, MidFlush: mid})
				}
			}
		}
	}
	var points int64
	for i, c := range cases {
		c := c
		e := &vrt.Explorer{Cfg: c05sCfg(), Bound: bound, Deadline: deadline, Root: func() { runFlushers(c) }}
		e.Shard, e.NShards = vlib.F.Shard, vlib.F.NShards
		e.Visit = func(x *vrt.Exec) bool {
			res.Nontrivial(fmt.Sprintf("c05s|%s|%x", c, x.Trace()))
			points += int64(c05sCur.points)
			checkFlushers(c, x)
			return true
		}
		e.Run()
		st.add(e)
		res.SampleSpread(int64(i), c.String())
	}
	vrt.FsHook = nil
	st.cases = len(cases)
	res.Extra["invariant_evaluations"] = float64(points)
	res.Extra["deviation_bound"] = fmt.Sprint(bound)
	st.finish()
}
