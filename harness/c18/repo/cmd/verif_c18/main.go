//go:build verif

// C18 harness: control-protocol round trip, bounded-exhaustive over field alphabets (engine E3).
package main

import (
	"bytes"
	"encoding/json"
	"fmt"
	"reflect"
	"strings"
	"unicode/utf8"

	"github.com/sheerbytes/sheerbytes/internal/transfer"
	"github.com/sheerbytes/sheerbytes/internal/verif/vlib"
	"github.com/sheerbytes/sheerbytes/pkg/manifest"
	"github.com/sheerbytes/sheerbytes/pkg/protocol"
)

type mem struct{ bytes.Buffer }

func (m *mem) Close() error { return nil }

var res *vlib.Result

const sentinel = 0xA5

func strClass(ss ...string) string {
	for _, s := range ss {
		if !utf8.ValidString(s) {
			return "invalid-utf8"
		}
	}
	return "value"
}

// norm identifies nil and empty slices / strings recursively for comparison.
func norm(v any) any {
	b, _ := json.Marshal(v) // only used for structural normalisation of slices; strings compared separately
	_ = b
	return v
}

func eqRecord(a, b any) (bool, string) {
	va, vb := reflect.ValueOf(a), reflect.ValueOf(b)
	if !va.IsValid() || !vb.IsValid() {
		return va.IsValid() == vb.IsValid(), "presence"
	}
	if va.Type() != vb.Type() {
		return false, "type"
	}
	if va.Kind() != reflect.Struct {
		return reflect.DeepEqual(a, b), "value"
	}
	for i := 0; i < va.NumField(); i++ {
		fa, fb := va.Field(i), vb.Field(i)
		name := va.Type().Field(i).Name
		if fa.Kind() == reflect.Slice {
			if fa.Len() == 0 && fb.Len() == 0 {
				continue
			}
		}
		if !reflect.DeepEqual(fa.Interface(), fb.Interface()) {
			return false, name
		}
	}
	return true, ""
}

func recName(r any) string {
	if r == nil {
		return "End"
	}
	return reflect.TypeOf(r).Name()
}

func recStrings(r any) []string {
	var out []string
	v := reflect.ValueOf(r)
	if !v.IsValid() || v.Kind() != reflect.Struct {
		return nil
	}
	for i := 0; i < v.NumField(); i++ {
		if v.Field(i).Kind() == reflect.String {
			out = append(out, v.Field(i).String())
		}
	}
	return out
}

func brief(r any) string {
	s := fmt.Sprintf("%+v", r)
	if len(s) > 160 {
		s = s[:160] + fmt.Sprintf("...(%d bytes)", len(s))
	}
	return s
}

// roundTrip encodes the records into one stream followed by a sentinel and decodes them back.
func roundTrip(recs []any) {
	var m mem
	for _, r := range recs {
		if err := transfer.VerifWriteRecord(&m, r); err != nil {
			res.Extra["encoder_rejected"] = res.Extra["encoder_rejected"].(float64) + 1
			return // values the encoder rejects are not part of the domain
		}
	}
	m.WriteByte(sentinel)
	res.Eval()
	names := make([]string, len(recs))
	for i, r := range recs {
		names[i] = recName(r)
	}
	seq := strings.Join(names, ",")
	held := make([]any, len(recs))
	for i, r := range recs {
		typ, got, err := transfer.VerifReadControlMessage(&m)
		held[i] = got
		if err != nil {
			res.Violate("mismatch", "c18/roundtrip", map[string]any{"record": recName(r), "field": "decode-error", "class": strClass(recStrings(r)...), "seq": len(recs) > 1},
				fmt.Sprintf("record %d of [%s] %s: decode error %v", i, seq, brief(r), err), nil)
			return
		}
		_ = typ
		if r == nil {
			if got != nil || typ != transfer.VerifTypeEnd {
				res.Violate("mismatch", "c18/roundtrip", map[string]any{"record": "End", "field": "type", "class": "value", "seq": len(recs) > 1}, fmt.Sprintf("End decoded as type 0x%02x %v in [%s]", typ, got, seq), nil)
				return
			}
			continue
		}
		if ok, field := eqRecord(r, got); !ok {
			res.Violate("mismatch", "c18/roundtrip", map[string]any{"record": recName(r), "field": field, "class": strClass(recStrings(r)...), "seq": len(recs) > 1},
				fmt.Sprintf("record %d of [%s]: wrote %s, read %s", i, seq, brief(r), brief(got)), nil)
			return
		}
	}
	// the sequence as a whole: every decoded value is still what was written once the later records
	// have been decoded too (a decoder that hands out memory it reuses passes the per-record
	// comparison above)
	for i, r := range recs {
		if r == nil {
			continue
		}
		if ok, field := eqRecord(r, held[i]); !ok {
			res.Violate("mismatch", "c18/roundtrip", map[string]any{"record": recName(r), "field": "held:" + field, "class": strClass(recStrings(r)...), "seq": true},
				fmt.Sprintf("record %d of [%s]: equal to what was written when decoded, but %s once the following records had been decoded (wrote %s)", i, seq, brief(held[i]), brief(r)), nil)
			return
		}
	}
	rest := m.Bytes()
	if len(rest) != 1 || rest[0] != sentinel {
		res.Violate("mismatch", "c18/roundtrip", map[string]any{"record": names[len(names)-1], "field": "framing", "class": "value", "seq": len(recs) > 1},
			fmt.Sprintf("after decoding [%s] %d bytes remain before/with the sentinel (want exactly the sentinel)", seq, len(rest)), nil)
	}
}

func rep(unit string, n int) string {
	if n == 0 {
		return ""
	}
	s := strings.Repeat(unit, n/len(unit)+1)
	s = s[:n]
	for !utf8.ValidString(s) && utf8.ValidString(unit) { // do not cut a rune
		s = s[:len(s)-1] + "x"
		if utf8.ValidString(s) {
			break
		}
		s = s[:len(s)-2] + "xx"
	}
	return s
}

func strAlphabet(lengths []int, path bool) []string {
	var out []string
	seen := map[string]bool{}
	add := func(s string) {
		if !seen[s] {
			seen[s] = true
			out = append(out, s)
		}
	}
	for _, n := range lengths {
		add(rep("a", n))
		add(rep("é", n))
		add(rep("\x01\x00\n", n))
		add(rep("\xff\xfe", n))
		if path {
			add(rep("d/", n-1) + "f")
			add(rep("日本/", n))
		}
	}
	return out
}

var (
	u64s  = []uint64{0, 1, 1<<64 - 2, 1<<64 - 1}
	u32s  = []uint32{0, 1, 1<<32 - 2, 1<<32 - 1}
	u16s  = []uint16{0, 1, 65534, 65535}
	u8s   = []byte{0, 1, 2, 255}
	u64s2 = []uint64{0, 1<<64 - 1}
	u32s2 = []uint32{0, 1<<32 - 1}
	u16s2 = []uint16{0, 65535}
)

func single(r any, nontrivialKey string) {
	roundTrip([]any{r})
	res.Nontrivial(nontrivialKey)
}

func main() {
	res = vlib.Parse()
	res.Part = "roundtrip"
	res.Extra["encoder_rejected"] = float64(0)
	res.Rule = "full product of per-field boundary alphabets for every record type, manifest header and signaling envelope; all ordered pairs/triples of representative records in one stream with a sentinel; a case is non-trivial when the encoder accepts it; distinct by the written-out field values"
	thorough := vlib.F.Tier == "thorough"
	n := 0
	mine := func() bool { n++; return vlib.Mine(n) }

	paths := strAlphabet([]int{1, 2, 255, 256, 1023, 1024, 1025}, true)
	ids := strAlphabet([]int{0, 1, 2, 255, 256, 65534, 65535}, false)
	s32, s16 := u32s2, u16s2
	if thorough {
		s32, s16 = u32s, u16s
	}
	// FileBegin
	for _, p := range paths {
		for _, fs := range u64s {
			for _, cs := range u32s {
				for _, sid := range u64s {
					for _, h := range u8s {
						for _, si := range s16 {
							for _, sc := range s16 {
								for _, ss := range s32 {
									for _, sch := range s32 {
										if !mine() {
											continue
										}
										r := transfer.FileBegin{RelPath: p, FileSize: fs, ChunkSize: cs, StreamID: sid, HashAlg: h, StripeIndex: si, StripeCount: sc, StripeStart: ss, StripeChunks: sch}
										single(r, fmt.Sprintf("FB|%d|%x|%d|%d|%d|%d|%d|%d|%d|%d", len(p), p[:min(len(p), 6)], fs, cs, sid, h, si, sc, ss, sch))
										res.SampleSpread(int64(n), brief(r))
									}
								}
							}
						}
					}
				}
			}
		}
	}
	// FileEnd, Credit, DataStreams, End
	for _, sid := range u64s {
		for _, c := range u32s {
			if mine() {
				single(transfer.FileEnd{StreamID: sid, CRC32: c}, fmt.Sprint("FE|", sid, c))
			}
			if mine() {
				single(transfer.Credit{StreamID: sid, Credits: c}, fmt.Sprint("CR|", sid, c))
			}
		}
	}
	for _, c := range u16s {
		if mine() {
			single(transfer.DataStreams{Count: c}, fmt.Sprint("DS|", c))
		}
	}
	if mine() {
		single(nil, "END")
	}
	// CreditBatch
	for _, cnt := range []int{0, 1, 2, 3, 1000} {
		for _, sid := range u64s {
			for _, c := range u32s {
				if !mine() {
					continue
				}
				var es []transfer.Credit
				for i := 0; i < cnt; i++ {
					es = append(es, transfer.Credit{StreamID: sid + uint64(i), Credits: c - uint32(i)})
				}
				single(transfer.CreditBatch{Entries: es}, fmt.Sprint("CB|", cnt, sid, c))
			}
		}
	}
	// FileDone, ResumeRequest
	for _, e := range ids {
		for _, sid := range u64s {
			for _, ok := range []bool{false, true} {
				if mine() {
					single(transfer.FileDone{StreamID: sid, OK: ok, ErrMsg: e}, fmt.Sprintf("FD|%d|%x|%d|%v", len(e), e[:min(len(e), 4)], sid, ok))
				}
			}
			if mine() {
				r := transfer.ResumeRequest{FileID: e, StreamID: sid}
				single(r, fmt.Sprintf("RR|%d|%x|%d", len(e), e[:min(len(e), 4)], sid))
				res.SampleSpread(int64(n), brief(r))
			}
		}
	}
	// FileResumeInfo
	big := bytes.Repeat([]byte{0x5a, 0xff, 0x00}, (1<<20)/3+1)[:1<<20]
	// the reader treats announced lengths above 1 MiB differently: both sides of that boundary
	over := append(append([]byte{}, big...), 0x81)
	over777 := append(append([]byte{}, big...), bytes.Repeat([]byte{0x3c}, 777)...)
	bitmaps := [][]byte{nil, {}, {0x00}, {0xff}, {0x01, 0x80}, big[:1<<20-1], big, over, over777}
	for bi, bm := range bitmaps {
		idset := ids
		a64, a32 := u64s, u32s
		if len(bm) > 1000 {
			a64, a32 = u64s2, u32s2
			if !thorough {
				idset = []string{ids[0], ids[len(ids)-1]}
			}
		}
		for _, id := range idset {
			for _, sid := range a64 {
				for _, tc := range a32 {
					for _, lv := range a32 {
						for _, lh := range a64 {
							if !mine() {
								continue
							}
							r := transfer.FileResumeInfo{FileID: id, StreamID: sid, TotalChunks: tc, Bitmap: bm, LastVerifiedChunk: lv, LastVerifiedHash: lh}
							single(r, fmt.Sprintf("RI|%d|%x|%d|%d|%d|%d|%d", len(id), id[:min(len(id), 4)], sid, tc, bi, lv, lh))
						}
					}
				}
			}
		}
	}
	// sequences
	reps := []any{
		transfer.FileBegin{RelPath: "a", FileSize: 1, ChunkSize: 1, StreamID: 7},
		transfer.FileBegin{RelPath: rep("é", 1024), FileSize: 1<<64 - 1, ChunkSize: 1<<32 - 1, StreamID: 1<<64 - 1, HashAlg: 255, StripeIndex: 65535, StripeCount: 65535, StripeStart: 1<<32 - 1, StripeChunks: 1<<32 - 1},
		transfer.FileEnd{StreamID: 0, CRC32: 0},
		transfer.FileEnd{StreamID: 1<<64 - 1, CRC32: 1<<32 - 1},
		transfer.FileDone{StreamID: 9, OK: true},
		transfer.FileDone{StreamID: 9, OK: false, ErrMsg: rep("e", 65535)},
		transfer.FileResumeInfo{},
		transfer.FileResumeInfo{FileID: rep("i", 65535), StreamID: 1, TotalChunks: 16, Bitmap: []byte{0xff, 0x10}, LastVerifiedChunk: 12, LastVerifiedHash: 1<<64 - 1},
		transfer.ResumeRequest{},
		transfer.ResumeRequest{FileID: "0123456789abcdef", StreamID: 3},
		transfer.Credit{StreamID: 1, Credits: 2},
		transfer.CreditBatch{},
		transfer.CreditBatch{Entries: []transfer.Credit{{StreamID: 1, Credits: 2}, {StreamID: 1<<64 - 1, Credits: 1<<32 - 1}}},
		transfer.DataStreams{Count: 0},
		transfer.DataStreams{Count: 65535},
		transfer.FileResumeInfo{FileID: "0123456789abcdef", StreamID: 5, TotalChunks: 1<<32 - 1, Bitmap: over777, LastVerifiedChunk: 7, LastVerifiedHash: 42},
		nil,
	}
	for i, a := range reps {
		for j, b := range reps {
			if mine() {
				roundTrip([]any{a, b})
				res.Nontrivial(fmt.Sprint("P|", i, j))
			}
			for k, c := range reps {
				if mine() {
					roundTrip([]any{a, b, c})
					res.Nontrivial(fmt.Sprint("T|", i, j, k))
					res.SampleSpread(int64(n), []string{brief(a), brief(b), brief(c)})
				}
			}
		}
	}
	// sequences of byte-carrying records that differ only in their payload: the receiver's resume
	// registry holds a decoded FileResumeInfo while the next ones are read, so a decoded bitmap
	// must not change when later records are decoded (roundTrip compares the held values again at
	// the end). Every ordered pair and triple of distinct bitmaps of 0-4100 bytes.
	seqBitmaps := [][]byte{{}, {0x00}, {0xff}, {0x01, 0x80}, {0x80, 0x01, 0x55}, bytes.Repeat([]byte{0xa5}, 64), bytes.Repeat([]byte{0x3c}, 4096), bytes.Repeat([]byte{0xc3}, 4100), big[:1<<20-1]}
	ri := func(k int) any {
		return transfer.FileResumeInfo{FileID: fmt.Sprintf("%016x", k+1), StreamID: uint64(k + 1), TotalChunks: uint32(8 * len(seqBitmaps[k])), Bitmap: seqBitmaps[k], LastVerifiedChunk: uint32(k), LastVerifiedHash: uint64(k) * 977}
	}
	for i := range seqBitmaps {
		for j := range seqBitmaps {
			if i == j {
				continue
			}
			if mine() {
				roundTrip([]any{ri(i), ri(j)})
				res.Nontrivial(fmt.Sprint("HP|", i, j))
			}
			for k := range seqBitmaps {
				if k == j || !mine() {
					continue
				}
				roundTrip([]any{ri(i), ri(j), ri(k), nil})
				res.Nontrivial(fmt.Sprint("HT|", i, j, k))
			}
		}
	}
	manifests(mine)
	manifestPairs(mine)
	bigManifests(mine)
	envelopes(mine)
	res.Finish()
}

func manifests(mine func() bool) {
	names := []string{"", "a", "dir/sub/file.txt", "ä ö/日本", "q\"uo\\te<>& ", "\x00\x01\n\t", rep("p/", 1022) + "ff", "bad\xff\xfeutf8"}
	i64 := []int64{0, 1, -1, 1<<63 - 1, -1 << 63}
	for ri, root := range names {
		for ni, nm := range names {
			for _, sz := range i64 {
				for _, dir := range []bool{false, true} {
					for cnt := 0; cnt <= 2; cnt++ {
						if !mine() {
							continue
						}
						m := manifest.Manifest{Root: root, TotalBytes: sz, FileCount: cnt, FolderCount: int(sz % 1000)}
						for k := 0; k < cnt; k++ {
							m.Items = append(m.Items, manifest.FileItem{RelPath: nm + fmt.Sprint(k), Size: sz, ModTime: sz / 2, IsDir: dir, ID: fmt.Sprintf("%016x", uint64(sz)+uint64(k))})
						}
						res.Eval()
						res.Nontrivial(fmt.Sprint("M|", ri, ni, sz, dir, cnt))
						var s mem
						if err := transfer.VerifWriteControlHeader(&s, m); err != nil {
							continue
						}
						s.WriteByte(sentinel)
						got, err := transfer.VerifReadControlHeader(&s)
						cls := strClass(root, nm)
						used := []string{root}
						if cnt > 0 {
							used = append(used, nm)
						}
						cls = strClass(used...)
						if err != nil {
							res.Violate("mismatch", "c18/roundtrip", map[string]any{"record": "manifest-header", "field": "decode-error", "class": cls, "seq": false}, fmt.Sprintf("manifest %s: %v", brief(m), err), nil)
							continue
						}
						if ok, field := eqRecord(m, got); !ok {
							res.Violate("mismatch", "c18/roundtrip", map[string]any{"record": "manifest-header", "field": field, "class": cls, "seq": false},
								fmt.Sprintf("manifest header: wrote %s, read %s", brief(m), brief(got)), nil)
							continue
						}
						if rest := s.Bytes(); len(rest) != 1 || rest[0] != sentinel {
							res.Violate("mismatch", "c18/roundtrip", map[string]any{"record": "manifest-header", "field": "framing", "class": cls, "seq": false}, fmt.Sprintf("%d bytes remain after the manifest header", len(rest)), nil)
						}
					}
				}
			}
		}
	}
}

// manifestPairs: one process writes many headers (a host serves every receiver that joins, a
// receiver may fetch several snapshots), so the round trip must also hold for a header that
// follows another one. A base manifest of three items and every variant that differs from it in
// exactly one field (header fields, each field of the first, middle and last item, the middle
// item dropped, no items at all with two roots) are written in every ordered pair, each on a
// stream of its own, and both must come back as written.
func manifestPairs(mine func() bool) {
	base := func() manifest.Manifest {
		return manifest.Manifest{Root: "snap", TotalBytes: 60, FileCount: 3, FolderCount: 0, Items: []manifest.FileItem{
			{RelPath: "a.bin", Size: 10, ModTime: 100, ID: "00000000000000a1"},
			{RelPath: "m.bin", Size: 20, ModTime: 200, ID: "00000000000000b2"},
			{RelPath: "z.bin", Size: 30, ModTime: 300, ID: "00000000000000c3"},
		}}
	}
	type variant struct {
		name string
		m    manifest.Manifest
	}
	vs := []variant{{"base", base()}}
	add := func(name string, f func(m *manifest.Manifest)) {
		m := base()
		f(&m)
		vs = append(vs, variant{name, m})
	}
	add("root", func(m *manifest.Manifest) { m.Root = "snap2" })
	add("total-bytes", func(m *manifest.Manifest) { m.TotalBytes = 61 })
	add("file-count", func(m *manifest.Manifest) { m.FileCount = 4 })
	add("folder-count", func(m *manifest.Manifest) { m.FolderCount = 1 })
	for k, pos := range []string{"first", "middle", "last"} {
		k := k
		add(pos+".rel_path", func(m *manifest.Manifest) { m.Items[k].RelPath += "x" })
		add(pos+".size", func(m *manifest.Manifest) { m.Items[k].Size++ })
		add(pos+".mod_time", func(m *manifest.Manifest) { m.Items[k].ModTime++ })
		add(pos+".is_dir", func(m *manifest.Manifest) { m.Items[k].IsDir = true })
		add(pos+".id", func(m *manifest.Manifest) { m.Items[k].ID = "ffffffffffffff0" + fmt.Sprint(k) })
	}
	add("middle-sizes-swapped", func(m *manifest.Manifest) { m.Items[0].Size, m.Items[1].Size = 20, 10 })
	add("middle-dropped", func(m *manifest.Manifest) { m.Items = []manifest.FileItem{m.Items[0], m.Items[2]} })
	add("no-items", func(m *manifest.Manifest) { m.Items = nil; m.FileCount = 0; m.TotalBytes = 0 })
	add("no-items-other-root", func(m *manifest.Manifest) { m.Items = nil; m.FileCount = 0; m.TotalBytes = 0; m.Root = "other" })
	add("no-items-folders", func(m *manifest.Manifest) { m.Items = nil; m.FileCount = 0; m.TotalBytes = 0; m.FolderCount = 2 })
	roundTrip := func(v variant, after string) {
		var s mem
		if err := transfer.VerifWriteControlHeader(&s, v.m); err != nil {
			return
		}
		s.WriteByte(sentinel)
		sig := func(f string) map[string]any {
			return map[string]any{"record": "manifest-header", "field": f, "class": "after-another-header", "seq": true}
		}
		got, err := transfer.VerifReadControlHeader(&s)
		if err != nil {
			res.Violate("mismatch", "c18/roundtrip", sig("decode-error"), fmt.Sprintf("manifest %q written after %q: %v", v.name, after, err), nil)
			return
		}
		if ok, field := eqRecord(v.m, got); !ok {
			res.Violate("mismatch", "c18/roundtrip", sig(field), fmt.Sprintf("manifest header %q written after %q: wrote %s, read %s", v.name, after, brief(v.m), brief(got)), nil)
			return
		}
		if rest := s.Bytes(); len(rest) != 1 || rest[0] != sentinel {
			res.Violate("mismatch", "c18/roundtrip", sig("framing"), fmt.Sprintf("%d bytes remain after manifest header %q written after %q", len(rest), v.name, after), nil)
		}
	}
	for i, a := range vs {
		for j, b := range vs {
			if !mine() {
				continue
			}
			res.Eval()
			res.Nontrivial(fmt.Sprint("MP|", i, j))
			roundTrip(a, "(whatever came before)")
			roundTrip(b, a.name)
			roundTrip(a, b.name)
		}
	}
}

// bigManifests: manifest headers whose JSON is just below / above 1 MiB and well above it,
// followed by further records in the same stream.
func bigManifests(mine func() bool) {
	for _, nitems := range []int{9000, 9600, 9700, 9800, 10500, 30000} {
		if !mine() {
			continue
		}
		m := manifest.Manifest{Root: "big", FileCount: nitems}
		for k := 0; k < nitems; k++ {
			m.Items = append(m.Items, manifest.FileItem{RelPath: fmt.Sprintf("dir%04d/%s/file%06d.bin", k%97, rep("n", 20), k), Size: int64(k), ModTime: int64(k) * 3, ID: fmt.Sprintf("%016x", k)})
			m.TotalBytes += int64(k)
		}
		res.Eval()
		res.Nontrivial(fmt.Sprint("BM|", nitems))
		var s mem
		if err := transfer.VerifWriteControlHeader(&s, m); err != nil {
			continue
		}
		hdrLen := len(s.Bytes())
		follow := []any{transfer.DataStreams{Count: 3}, transfer.FileBegin{RelPath: "dir0000/x", FileSize: 9, ChunkSize: 4, StreamID: 77}}
		for _, r := range follow {
			if err := transfer.VerifWriteRecord(&s, r); err != nil {
				res.InfraError("write %T: %v", r, err)
			}
		}
		s.WriteByte(sentinel)
		got, err := transfer.VerifReadControlHeader(&s)
		sig := func(f string) map[string]any {
			return map[string]any{"record": "manifest-header", "field": f, "class": "large", "seq": true}
		}
		if err != nil {
			res.Violate("mismatch", "c18/roundtrip", sig("decode-error"), fmt.Sprintf("manifest of %d items (%d header bytes): %v", nitems, hdrLen, err), nil)
			continue
		}
		if ok, field := eqRecord(m, got); !ok {
			res.Violate("mismatch", "c18/roundtrip", sig(field), fmt.Sprintf("manifest of %d items (%d header bytes) comes back different in %s", nitems, hdrLen, field), nil)
			continue
		}
		for _, want := range follow {
			_, r, err := transfer.VerifReadControlMessage(&s)
			if err != nil {
				res.Violate("mismatch", "c18/roundtrip", sig("framing"), fmt.Sprintf("record after a manifest header of %d bytes: %v", hdrLen, err), nil)
				break
			}
			if ok, field := eqRecord(want, r); !ok {
				res.Violate("mismatch", "c18/roundtrip", sig("framing"), fmt.Sprintf("record after a manifest header of %d bytes: wrote %s, read %s (%s)", hdrLen, brief(want), brief(r), field), nil)
				break
			}
		}
		if rest := s.Bytes(); len(rest) != 1 || rest[0] != sentinel {
			res.Violate("mismatch", "c18/roundtrip", sig("framing"), fmt.Sprintf("%d bytes remain after the records that follow a manifest header of %d bytes", len(rest), hdrLen), nil)
		}
		res.Sample(map[string]any{"manifest_items": nitems, "header_bytes": hdrLen})
	}
}

func envelopes(mine func() bool) {
	strs := []string{"", "a", "peer 1", "ä日本", "q\"uo\\te<>&  ", "\x00\x01\n\t\x7f", rep("x", 70000)}
	payloads := []any{nil, map[string]any{}, protocol.Hello{PeerID: "p", Role: "sender"}, protocol.Error{Code: "c", Message: "m\n\"<"}, []int{1, 2, 3}, "str", 1.5}
	for ti, typ := range strs {
		for _, id := range strs {
			for _, from := range strs {
				for pi, pl := range payloads {
					if !mine() {
						continue
					}
					res.Eval()
					env, err := protocol.NewEnvelope(typ, id, pl)
					if err != nil {
						continue
					}
					env.From, env.To, env.SessionID = from, id, typ
					res.Nontrivial(fmt.Sprint("E|", ti, len(id), len(from), pi))
					b, err := json.Marshal(env)
					if err != nil {
						continue
					}
					var got protocol.Envelope
					if err := json.Unmarshal(b, &got); err != nil {
						res.Violate("mismatch", "c18/roundtrip", map[string]any{"record": "envelope", "field": "decode-error", "class": "value", "seq": false}, fmt.Sprintf("envelope %s: %v", brief(env), err), nil)
						continue
					}
					if ok, field := eqRecord(env, got); !ok {
						res.Violate("mismatch", "c18/roundtrip", map[string]any{"record": "envelope", "field": field, "class": "value", "seq": false}, fmt.Sprintf("envelope: wrote %s, read %s", brief(env), brief(got)), nil)
					}
				}
			}
		}
	}
}
