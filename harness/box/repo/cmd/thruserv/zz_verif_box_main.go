//go:build verif

package main

import (
	"encoding/json"
	"os"

	vrt "github.com/sheerbytes/sheerbytes/internal/verif/vrt"
	"github.com/sheerbytes/sheerbytes/internal/verif/vlib"
)

var res *vlib.Result

func main() {
	res = vlib.Parse()
	// the server and its logger print through termio: keep the harness output clean
	if devnull, err := os.OpenFile(os.DevNull, os.O_WRONLY, 0); err == nil {
		os.Stdout = devnull
	}
	mode := vlib.Arg("mode", "c10")
	res.Part = mode
	if vlib.F.Replay != "" {
		replayBox(mode)
		res.Finish()
	}
	switch mode {
	case "c10":
		modeC10()
	default:
		res.InfraError("unknown mode %s", mode)
	}
	res.Finish()
}

func replayBox(mode string) {
	var art struct {
		Violation struct {
			Replay json.RawMessage `json:"replay"`
		} `json:"violation"`
	}
	if err := vlib.ReadJSON(vlib.F.Replay, &art); err != nil {
		res.InfraError("%v", err)
		return
	}
	switch mode {
	case "c10":
		var rp c10Replay
		json.Unmarshal(art.Violation.Replay, &rp)
		var w *c10World
		x := vrt.Run(boxCfg(), nil, func() {
			w = c10Build(rp.History)
			if rp.Test != nil {
				w.runTest(*rp.Test)
			}
		})
		res.Eval()
		c10Report(rp.History, rp.Test, w, x, "")
	}
}
