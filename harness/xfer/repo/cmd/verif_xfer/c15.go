//go:build verif

package main

import (
	"bytes"
	"context"
	"fmt"
	"os"
	"path/filepath"
	"runtime"
	"strings"
	"time"

	"github.com/sheerbytes/sheerbytes/internal/transfer"
	"github.com/sheerbytes/sheerbytes/internal/verif/vlib"
	vrt "github.com/sheerbytes/sheerbytes/internal/verif/vrt"
	"github.com/sheerbytes/sheerbytes/pkg/manifest"
)

// ---- C15 (b): malformed / hostile protocol input at every stage ----

type Script struct {
	Side  string   `json:"side"`  // "sender" = scripted sender vs real receiver; "receiver" = scripted receiver vs real sender
	Stage string   `json:"stage"` // header | records | responses
	Syms  []string `json:"syms"`
	// Ending: "" = the script finishes its streams and then closes the connection;
	// "open" = it finishes every stream and leaves the connection open (an idle, not a dead, peer)
	Ending string `json:"ending,omitempty"`
}

func (s Script) String() string {
	e := ""
	if s.Ending != "" {
		e = "+" + s.Ending
	}
	return s.Side + "/" + s.Stage + ":" + strings.Join(s.Syms, ",") + e
}

var c15m = manifest.Manifest{Root: "share", FileCount: 2, TotalBytes: 6, Items: []manifest.FileItem{
	{RelPath: "f1", Size: 6, ID: "1111111111111111"},
	{RelPath: "f2", Size: 0, ID: "2222222222222222"},
}}

type c15Out struct {
	err      error
	returned bool
	alloc    uint64
}

var c15cur *c15Out

func senderSymbols() []string {
	return []string{"DS0", "DS1", "DS2", "DSmax", "FB1", "FB1dup", "FBunknown", "FBwrongsize", "FBchunk0", "FB2", "RR1", "RRunknown", "FE1", "FEunknown",
		"END", "DSFIN", "CREDIT", "CREDITBATCH", "FILEDONE", "RESUMEINFO", "UNKNOWN", "TRUNC",
		"CH0", "CH1", "CHrange", "CHlen0", "CHlong", "CHkey", "CHcrc", "CHtrunc",
		// frames that name the zero-length file f2 (it has no chunk at all)
		"FE2", "CHempty", "CHemptybig", "FB2chunk0"}
}

func runScriptedSender(sc Script) {
	o := &c15Out{}
	c15cur = o
	outDir := filepath.Join(scratch, "out")
	os.RemoveAll(outDir)
	os.MkdirAll(outDir, 0755)
	cl, sv := newConnPair()
	k1 := fileKey(c15m.Items[0])
	k2 := fileKey(c15m.Items[1])
	var ms0, ms1 runtime.MemStats
	runtime.ReadMemStats(&ms0)
	var wg vrt.WaitGroup
	wg.Add(2)
	vrt.GoNamed("script", "S", func() {
		defer wg.Done()
		ctx := context.Background()
		ctrl, ds, err := openStreams(ctx, cl, 2)
		if err != nil {
			return
		}
		if sc.Stage == "header" {
			ctrl.Write(headerVariant(sc.Syms[0]))
		} else {
			ctrl.Write(encHeader(c15m))
			for _, s := range sc.Syms {
				switch s {
				case "DS0":
					ctrl.Write(encDataStreams(0))
				case "DS1":
					ctrl.Write(encDataStreams(1))
				case "DS2":
					ctrl.Write(encDataStreams(2))
				case "DSmax":
					ctrl.Write(encDataStreams(65535))
				case "FB1", "FB1dup":
					ctrl.Write(encFileBegin("f1", 6, 4, k1, 1))
				case "FBunknown":
					ctrl.Write(encFileBegin("nope", 6, 4, 12345, 1))
				case "FBwrongsize":
					ctrl.Write(encFileBegin("f1", 7, 4, k1, 1))
				case "FBchunk0":
					ctrl.Write(encFileBegin("f1", 6, 0, k1, 1))
				case "FB2":
					ctrl.Write(encFileBegin("f2", 0, 4, k2, 1))
				case "FB2chunk0":
					// chunk size 0 for the file that has no chunks anyway
					ctrl.Write(encFileBegin("f2", 0, 0, k2, 1))
				case "RR1":
					ctrl.Write(encResumeRequest("1111111111111111", k1))
				case "RRunknown":
					ctrl.Write(encResumeRequest("9999999999999999", 999))
				case "FE1":
					ctrl.Write(encFileEnd(k1))
				case "FEunknown":
					ctrl.Write(encFileEnd(4242))
				case "END":
					ctrl.Write(encEnd())
				case "DSFIN":
					// the data streams end here, earlier than the control stream; what they
					// carried is consumed first (the timer fires once every thread is blocked)
					vrt.Sleep(10 * time.Millisecond)
					for _, d := range ds {
						d.Close()
					}
					vrt.Sleep(10 * time.Millisecond)
				case "CREDIT":
					ctrl.Write(cat([]byte{0x11}, be64(1), be32(1)))
				case "CREDITBATCH":
					ctrl.Write(cat([]byte{0x16}, be32(0xffffffff), be64(1)))
				case "FILEDONE":
					ctrl.Write(encFileDone(k1, true, ""))
				case "RESUMEINFO":
					ctrl.Write(encResumeInfo("1111111111111111", k1, 2, []byte{1}, 0, 0))
				case "UNKNOWN":
					ctrl.Write([]byte{0x55, 1, 2, 3})
				case "TRUNC":
					ctrl.Write(encFileBegin("f1", 6, 4, k1, 1)[:9])
				case "CH0":
					ds[0].Write(encChunk(k1, 0, []byte("abcd")))
				case "CH1":
					ds[1].Write(encChunk(k1, 1, []byte("ef")))
				case "CHrange":
					ds[0].Write(encChunk(k1, 7, []byte("abcd")))
				case "CHlen0":
					ds[0].Write(encChunkRaw(k1, 0, 0, 0, nil))
				case "CHlong":
					ds[0].Write(encChunkRaw(k1, 0, 0xfffffff0, 0, []byte("abcdefgh")))
				case "CHkey":
					ds[1].Write(encChunk(777, 0, []byte("abcd")))
				case "CHcrc":
					ds[0].Write(encChunkRaw(k1, 0, 4, 0xdeadbeef, []byte("abcd")))
				case "CHtrunc":
					ds[1].Write(encChunk(k1, 0, []byte("abcd"))[:11])
				case "FE2":
					ctrl.Write(encFileEnd(k2))
				case "CHempty":
					ds[0].Write(encChunk(k2, 0, []byte("ab")))
				case "CHemptybig":
					// announces 256 MiB for a file without chunks and delivers 5 bytes
					ds[0].Write(encChunkRaw(k2, 0, 256<<20, 0, []byte("abcde")))
				}
			}
		}
		// the input ends here
		vrt.Sleep(50 * time.Millisecond)
		for _, d := range ds {
			d.Close()
		}
		ctrl.Close()
		if sc.Ending == "open" {
			vrt.Block("script-waits-for-receiver", func() bool { return o.returned })
		} else {
			vrt.Sleep(50 * time.Millisecond)
		}
		cl.Close()
	})
	vrt.GoNamed("R", "R", func() {
		defer wg.Done()
		_, o.err = transfer.RecvManifestMultiStream(context.Background(), sv, outDir, transfer.Options{Resume: true, NoRootDir: true, HashAlg: "crc32c", ParallelFiles: 2})
		o.returned = true
		sv.Close()
	})
	wg.Wait()
	runtime.ReadMemStats(&ms1)
	o.alloc = ms1.TotalAlloc - ms0.TotalAlloc
}

func headerVariants() []string {
	v := []string{"badmagic", "emptyjson", "notjson", "hugelen", "neg-size", "huge-size", "dup-items", "dir-with-size", "null-items", "deep-json", "count-mismatch"}
	full := encHeader(c15m)
	for l := 0; l < len(full); l += 3 {
		v = append(v, fmt.Sprintf("trunc%d", l))
	}
	return v
}

func headerVariant(name string) []byte {
	full := encHeader(c15m)
	var l int
	if n, _ := fmt.Sscanf(name, "trunc%d", &l); n == 1 {
		return full[:l]
	}
	switch name {
	case "badmagic":
		return append([]byte("XXXX"), full[4:]...)
	case "emptyjson":
		return encHeaderRaw(nil)
	case "notjson":
		return encHeaderRaw([]byte("{{{not json"))
	case "hugelen":
		return cat([]byte("SBC1"), be32(0xfffffff0), []byte("{}"))
	case "neg-size":
		return encHeaderRaw([]byte(`{"root":"r","items":[{"rel_path":"f","size":-5,"id":"1"}],"file_count":1}`))
	case "huge-size":
		return encHeaderRaw([]byte(`{"root":"r","items":[{"rel_path":"f","size":9223372036854775807,"id":"1"}],"file_count":1}`))
	case "dup-items":
		return encHeaderRaw([]byte(`{"root":"r","items":[{"rel_path":"f","size":1,"id":"1"},{"rel_path":"f","size":2,"id":"1"}],"file_count":2}`))
	case "dir-with-size":
		return encHeaderRaw([]byte(`{"root":"r","items":[{"rel_path":"d","size":10,"is_dir":true,"id":"1"}]}`))
	case "null-items":
		return encHeaderRaw([]byte(`{"root":"r","items":null}`))
	case "deep-json":
		return encHeaderRaw([]byte(strings.Repeat("[", 5000)))
	case "count-mismatch":
		return encHeaderRaw([]byte(`{"root":"r","items":[],"file_count":7,"total_bytes":99}`))
	}
	return full
}

// scripted receiver vs real sender
func receiverResponses() ([]string, []string) {
	return []string{"RIok", "RIwrongtotal", "RIshort", "RIlong", "RIidmismatch", "RIverifiedbeyond", "RIallset", "none", "garbage"},
		[]string{"FDok", "FDfail", "FDunknown", "none", "UNKNOWN", "FILEBEGIN", "ENDREC",
			// repeated and contradictory confirmations, at once and a little later
			"FDok-twice", "FDok-then-fail", "FDfail-then-ok", "FDok-late-twice", "FDok-thrice"}
}

func runScriptedReceiver(sc Script) {
	o := &c15Out{}
	c15cur = o
	// one file of 10 chunks so that bitmap lengths matter
	c := Case{Tree: []Entry{{Path: "big", Size: 39}}, Chunk: 4, Streams: 2, Conns: 1, Resume: true, NoRootDir: true}
	p := c15prep
	if p == nil {
		var err error
		p, err = prepare(c)
		if err != nil {
			panic(err)
		}
		c15prep = p
	}
	it := fileItems(p)[0]
	key := fileKey(it)
	cl, sv := newConnPair()
	var ms0, ms1 runtime.MemStats
	runtime.ReadMemStats(&ms0)
	var wg vrt.WaitGroup
	wg.Add(2)
	vrt.GoNamed("S", "S", func() {
		defer wg.Done()
		o.err = transfer.SendManifestMultiStream(context.Background(), cl, p.Root, p.M, sendOpts(p))
		o.returned = true
		cl.Close()
	})
	vrt.GoNamed("script", "R", func() {
		defer wg.Done()
		ctx := context.Background()
		ctrl, err := sv.AcceptStream(ctx)
		if err != nil {
			return
		}
		// drain data streams in the background
		vrt.GoNamed("drain", "R", func() {
			for {
				s, err := sv.AcceptStream(ctx)
				if err != nil {
					return
				}
				vrt.GoNamed("drain1", "R", func() {
					buf := make([]byte, 4096)
					for {
						if _, err := s.Read(buf); err != nil {
							return
						}
					}
				})
			}
		})
		if _, err := transfer.VerifReadControlHeader(ctrl); err != nil {
			return
		}
		riDone, fdDone := false, false
		for {
			typ, _, err := transfer.VerifReadControlMessage(ctrl)
			if err != nil {
				break
			}
			switch typ {
			case 0x15: // ResumeRequest
				if riDone {
					continue
				}
				riDone = true
				full := []byte{0xff, 0x03}
				switch sc.Syms[0] {
				case "RIok":
					ctrl.Write(encResumeInfo(it.ID, key, 10, []byte{0x03, 0x00}, 1, 0))
				case "RIwrongtotal":
					ctrl.Write(encResumeInfo(it.ID, key, 11, []byte{0x03, 0x00}, 1, 0))
				case "RIshort":
					ctrl.Write(encResumeInfo(it.ID, key, 10, []byte{0x03}, 1, 0))
				case "RIlong":
					ctrl.Write(encResumeInfo(it.ID, key, 10, []byte{0x03, 0, 0, 0}, 1, 0))
				case "RIidmismatch":
					ctrl.Write(encResumeInfo("ffffffffffffffff", key, 10, []byte{0x03, 0x00}, 1, 0))
				case "RIverifiedbeyond":
					ctrl.Write(encResumeInfo(it.ID, key, 10, []byte{0x03, 0x00}, 0xfffffff0, 7))
				case "RIallset":
					ctrl.Write(encResumeInfo(it.ID, key, 10, full, 9, 12345))
				case "garbage":
					ctrl.Write([]byte{0x14, 0xff, 0xff, 1, 2, 3})
				}
			case 0x12: // FileEnd
				if fdDone {
					continue
				}
				fdDone = true
				switch sc.Syms[1] {
				case "FDok":
					ctrl.Write(encFileDone(key, true, ""))
				case "FDok-twice":
					ctrl.Write(cat(encFileDone(key, true, ""), encFileDone(key, true, "")))
				case "FDok-thrice":
					ctrl.Write(cat(encFileDone(key, true, ""), encFileDone(key, true, ""), encFileDone(key, true, "")))
				case "FDok-then-fail":
					ctrl.Write(cat(encFileDone(key, true, ""), encFileDone(key, false, "changed my mind")))
				case "FDfail-then-ok":
					ctrl.Write(cat(encFileDone(key, false, "disk full"), encFileDone(key, true, "")))
				case "FDok-late-twice":
					vrt.Sleep(150 * time.Millisecond)
					ctrl.Write(cat(encFileDone(key, true, ""), encFileDone(key, true, "")))
				case "FDfail":
					ctrl.Write(encFileDone(key, false, "disk full"))
				case "FDunknown":
					ctrl.Write(encFileDone(31337, true, ""))
				case "UNKNOWN":
					ctrl.Write([]byte{0x77, 0, 0})
				case "FILEBEGIN":
					ctrl.Write(encFileBegin("x", 1, 1, 1, 1))
				case "ENDREC":
					ctrl.Write(encEnd())
				}
				// the scripted side has said all it will say
				vrt.Sleep(50 * time.Millisecond)
				ctrl.Close()
				vrt.Sleep(50 * time.Millisecond)
				sv.Close()
				return
			}
		}
		ctrl.Close()
		sv.Close()
	})
	wg.Wait()
	runtime.ReadMemStats(&ms1)
	o.alloc = ms1.TotalAlloc - ms0.TotalAlloc
}

var c15prep *Prepared

func runScript(sc Script) {
	if sc.Side == "sender" {
		runScriptedSender(sc)
	} else {
		runScriptedReceiver(sc)
	}
}

func checkC15(sc Script, x *vrt.Exec) {
	rp := replayT{Mode: "c15", Choices: append([]int{}, x.Choices()...), Extra: vlib.JSON(sc)}
	o := c15cur
	victim := "receiver"
	if sc.Side == "receiver" {
		victim = "sender"
	}
	switch x.Outcome {
	case "ok":
	case "panic":
		res.Violate("panic", "xfer/c15", map[string]any{"victim": victim, "panic": x.Detail}, fmt.Sprintf("%s: %s panics: %s", sc, victim, x.Detail), rp)
		return
	case "deadlock", "stall":
		sig := hangSig(x)
		sig["victim"] = victim
		res.Violate("hang", "xfer/c15", sig, fmt.Sprintf("%s: the input has ended but the %s does not return (%s): %v", sc, victim, x.Outcome, x.Blocked), rp)
		return
	case "exit":
		res.Violate("exit", "xfer/c15", map[string]any{"victim": victim, "exit": x.Detail}, fmt.Sprintf("%s: %s", sc, x.Detail), rp)
		return
	default:
		res.InfraError("%s: outcome %s %s", sc, x.Outcome, x.Detail)
		return
	}
	if o.alloc > 64<<20 {
		res.Violate("memory", "xfer/c15", map[string]any{"victim": victim, "class": ">64MiB"}, fmt.Sprintf("%s: %d bytes allocated during the exchange", sc, o.alloc), rp)
	}
}

func c15Cfg() vrt.Config {
	cfg := baseCfg()
	cfg.IdleHorizon = int64(60 * time.Second)
	return cfg
}

func modeC15() {
	res.Rule = "scripted sender against the real receiver: header variants (wrong magic, every 3rd truncation, absurd length, invalid and odd JSON) and all record/frame sequences up to length 3 (4 in the thorough tier) over a 33-symbol alphabet (one symbol ends the data streams early, three name the zero-length file), after which the script finishes its streams and either closes the connection or leaves it open; scripted receiver against the real sender: every pair (answer to the resume request x answer to FileEnd); non-trivial = every script; distinct by script"
	thorough := vlib.F.Tier == "thorough"
	st := newStats()
	var scripts []Script
	for _, h := range headerVariants() {
		scripts = append(scripts, Script{Side: "sender", Stage: "header", Syms: []string{h}})
	}
	syms := senderSymbols()
	maxLen := 3
	if thorough {
		maxLen = 4
	}
	var rec func(cur []string)
	rec = func(cur []string) {
		if len(cur) > 0 {
			scripts = append(scripts, Script{Side: "sender", Stage: "records", Syms: append([]string{}, cur...)})
		}
		if len(cur) == maxLen {
			return
		}
		for _, s := range syms {
			rec(append(cur, s))
		}
	}
	rec(nil)
	if !thorough {
		// length 4 over the record symbols that change the receiver's state
		core := []string{"DS1", "DS2", "FB1", "FB2", "RR1", "FE1", "FE2", "END", "DSFIN", "CH0", "CH1", "CHkey", "CHcrc", "CHempty", "CHemptybig", "TRUNC"}
		for _, a := range core {
			for _, b := range core {
				for _, c := range core {
					for _, d := range core {
						scripts = append(scripts, Script{Side: "sender", Stage: "records", Syms: []string{a, b, c, d}})
					}
				}
			}
		}
	}
	// every record script also with the other ending
	for _, sc := range append([]Script{}, scripts...) {
		if sc.Stage == "records" {
			sc.Ending = "open"
			scripts = append(scripts, sc)
		}
	}
	ri, fd := receiverResponses()
	for _, a := range ri {
		for _, b := range fd {
			scripts = append(scripts, Script{Side: "receiver", Stage: "responses", Syms: []string{a, b}})
		}
	}
	_ = bytes.MinRead
	budget := 170 * time.Second
	if thorough {
		budget = 28 * time.Minute
	}
	deadline := time.Now().Add(budget)
	cut := false
	for i, sc := range scripts {
		if !vlib.Mine(i) {
			continue
		}
		if time.Now().After(deadline) {
			cut = true
			break
		}
		sc := sc
		x := vrt.Run(c15Cfg(), nil, func() { runScript(sc) })
		st.execs++
		st.steps += int64(x.Steps())
		st.nodes += int64(x.NPoints()) + 1
		st.outcomes[x.Outcome]++
		res.Nontrivial(sc.String())
		checkC15(sc, x)
		res.SampleSpread(int64(i), sc.String())
	}
	st.cases = len(scripts)
	st.finish()
	if cut {
		res.NotExhaustive("time budget")
	}
}
