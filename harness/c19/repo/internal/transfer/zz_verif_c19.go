//go:build verif

package transfer

import "github.com/sheerbytes/sheerbytes/pkg/manifest"

// Exports for the C19 harness (layered in through -overlay; never part of a normal build).

func VerifChunkTotal(fileSize int64, chunkSize uint32) uint32 { return chunkTotal(fileSize, chunkSize) }
func VerifChunkSizeForIndex(fileSize int64, chunkSize uint32, idx uint32) uint32 {
	return chunkSizeForIndex(fileSize, chunkSize, idx)
}

const VerifMaxFileSize = int64(maxFileSize)

// VerifWriteLateChunk runs the receiver's write of a chunk that arrives after its file was
// finalised (a third place where a chunk index is turned into a file offset).
func VerifWriteLateChunk(path string, chunkSize uint32, idx uint32, data []byte) error {
	return writeLateChunk(&recvFileStateMux{filePath: path, chunkSize: chunkSize}, idx, data)
}

// VerifReloadSidecar creates resume metadata for (id, size, chunkA) with every chunk marked,
// stores it, and loads it again the way the receiver does for a transfer that uses chunkB. It
// returns the chunk count and chunk size of what the receiver would work with.
func VerifReloadSidecar(path, id string, size int64, chunkA, chunkB uint32) (uint32, uint32, int, error) {
	sc, err := CreateSidecar(path, id, size, chunkA)
	if err != nil {
		return 0, 0, 0, err
	}
	for i := uint32(0); i < sc.TotalChunks; i++ {
		sc.MarkComplete(i)
	}
	if err := sc.Flush(); err != nil {
		return 0, 0, 0, err
	}
	got, err := LoadOrCreateSidecarWithFallback(path, "", id, size, chunkB)
	if err != nil {
		return 0, 0, 0, err
	}
	return got.TotalChunks, got.ChunkSize, got.bitmap.CountSet(), nil
}

// VerifSenderSchedule drives the sender's real chunk scheduler (sendFileState.nextChunkToSend)
// for one file: the complete default schedule, then a re-send of every index requested before
// the schedule has started and after it has finished (the two re-send sites). Each entry is
// (index, length) as the data-stream worker would read and send it.
func VerifSenderSchedule(size int64, chunk uint32) (sched, resendBefore, resendAfter [][2]uint32) {
	mk := func() *sendFileState {
		return &sendFileState{item: manifest.FileItem{Size: size}, chunkSize: chunk, totalChunks: chunkTotal(size, chunk)}
	}
	s := mk()
	for {
		idx, n, ok := s.nextChunkToSend()
		if !ok {
			break
		}
		sched = append(sched, [2]uint32{idx, n})
		if uint32(len(sched)) > s.totalChunks+1 {
			break
		}
	}
	for i := uint32(0); i < s.totalChunks; i++ {
		s.mu.Lock()
		s.resendPending, s.resendChunk = true, i
		s.mu.Unlock()
		if idx, n, ok := s.nextChunkToSend(); ok {
			resendAfter = append(resendAfter, [2]uint32{idx, n})
		}
		b := mk()
		b.resendPending, b.resendChunk = true, i
		if idx, n, ok := b.nextChunkToSend(); ok {
			resendBefore = append(resendBefore, [2]uint32{idx, n})
		}
	}
	return
}
