package vrt

import (
	"io/fs"
	"os"
)

// File-system seams: thin wrappers around the real calls. Every call is a labelled point at which a
// harness hook can evaluate an invariant on the real disk content, inject a fault, or kill the
// process group. WriteFile and WriteAt are split so that a kill inside a write is reachable.

// FsHook, when set by a harness, is called before (phase "pre"), inside ("mid") and after ("post")
// every file-system mutation of instrumented code. Returning a non-nil error from the "pre"
// phase makes the operation fail with that error without touching the disk.
var FsHook func(op, path, phase string) error

func fsPoint(op, path, phase string) error {
	x := X
	if x == nil || x.teardown || x.fin {
		return nil
	}
	if phase == "pre" {
		x.yield(nil, "fs:"+op) // every file-system mutation is a scheduling point
	}
	if FsHook != nil {
		if err := FsHook(op, path, phase); err != nil {
			return err
		}
	}
	return nil
}

func OsWriteFile(name string, data []byte, perm os.FileMode) error {
	if err := fsPoint("writefile", name, "pre"); err != nil {
		return err
	}
	f, err := os.OpenFile(name, os.O_WRONLY|os.O_CREATE|os.O_TRUNC, perm)
	if err != nil {
		return err
	}
	if err := fsPoint("writefile", name, "mid-truncated"); err != nil {
		f.Close()
		return err // e.g. disk full right after the truncation
	}
	h := len(data) / 2
	if _, err := f.Write(data[:h]); err != nil {
		f.Close()
		return err
	}
	if h > 0 {
		if err := fsPoint("writefile", name, "mid-half"); err != nil {
			f.Close()
			return err
		}
	}
	if _, err := f.Write(data[h:]); err != nil {
		f.Close()
		return err
	}
	err = f.Close()
	fsPoint("writefile", name, "post")
	return err
}

func OsRename(oldp, newp string) error {
	if err := fsPoint("rename", newp, "pre"); err != nil {
		return err
	}
	err := os.Rename(oldp, newp)
	fsPoint("rename", newp, "post")
	return err
}

func OsRemove(name string) error {
	if err := fsPoint("remove", name, "pre"); err != nil {
		return err
	}
	err := os.Remove(name)
	fsPoint("remove", name, "post")
	return err
}

func OsRemoveAll(name string) error {
	if err := fsPoint("removeall", name, "pre"); err != nil {
		return err
	}
	err := os.RemoveAll(name)
	fsPoint("removeall", name, "post")
	return err
}

func OsMkdirAll(name string, perm os.FileMode) error {
	if err := fsPoint("mkdirall", name, "pre"); err != nil {
		return err
	}
	err := os.MkdirAll(name, perm)
	fsPoint("mkdirall", name, "post")
	return err
}

func OsMkdir(name string, perm os.FileMode) error {
	if err := fsPoint("mkdir", name, "pre"); err != nil {
		return err
	}
	err := os.Mkdir(name, perm)
	fsPoint("mkdir", name, "post")
	return err
}

func OsOpenFile(name string, flag int, perm os.FileMode) (*os.File, error) {
	mut := flag&(os.O_WRONLY|os.O_RDWR|os.O_CREATE|os.O_TRUNC|os.O_APPEND) != 0
	if mut {
		if err := fsPoint("openfile", name, "pre"); err != nil {
			return nil, err
		}
	}
	f, err := os.OpenFile(name, flag, perm)
	if mut {
		fsPoint("openfile", name, "post")
	}
	return f, err
}

func OsCreate(name string) (*os.File, error) {
	return OsOpenFile(name, os.O_RDWR|os.O_CREATE|os.O_TRUNC, 0666)
}

func OsTruncate(name string, size int64) error {
	if err := fsPoint("truncate", name, "pre"); err != nil {
		return err
	}
	err := os.Truncate(name, size)
	fsPoint("truncate", name, "post")
	return err
}

func FileWriteAt(f *os.File, b []byte, off int64) (int, error) {
	if err := fsPoint("writeat", f.Name(), "pre"); err != nil {
		return 0, err
	}
	h := len(b) / 2
	n := 0
	if h > 0 {
		m, err := f.WriteAt(b[:h], off)
		n += m
		if err != nil {
			return n, err
		}
		if err := fsPoint("writeat", f.Name(), "mid-half"); err != nil {
			return n, err
		}
	}
	m, err := f.WriteAt(b[h:], off+int64(h))
	n += m
	fsPoint("writeat", f.Name(), "post")
	return n, err
}

func FileWrite(f *os.File, b []byte) (int, error) {
	if err := fsPoint("write", f.Name(), "pre"); err != nil {
		return 0, err
	}
	n, err := f.Write(b)
	fsPoint("write", f.Name(), "post")
	return n, err
}

func FileTruncate(f *os.File, size int64) error {
	if err := fsPoint("ftruncate", f.Name(), "pre"); err != nil {
		return err
	}
	err := f.Truncate(size)
	fsPoint("ftruncate", f.Name(), "post")
	return err
}

func FileClose(f *os.File) error {
	if f == nil {
		return fs.ErrInvalid
	}
	return f.Close()
}

func FileSync(f *os.File) error {
	err := f.Sync()
	fsPoint("fsync", f.Name(), "post")
	return err
}
