//go:build verif

package app

// VerifBuildWebSocketURL exposes the client's URL construction to the box harness.
func VerifBuildWebSocketURL(serverURL, joinCode, peerID, role string, maxReceivers int) (string, error) {
	return buildWebSocketURL(serverURL, joinCode, peerID, role, maxReceivers)
}
