//go:build verif

package main

import (
	"context"
	"fmt"
	"os"
	"path/filepath"
	"time"

	"github.com/sheerbytes/sheerbytes/internal/transfer"
	quic "github.com/sheerbytes/sheerbytes/internal/verif/venv/vquic"
	"github.com/sheerbytes/sheerbytes/internal/verif/vlib"
	vrt "github.com/sheerbytes/sheerbytes/internal/verif/vrt"
	"github.com/sheerbytes/sheerbytes/pkg/manifest"
)

// C02, receiver-only phase: a scripted sender plays an honest two-file transfer up to some
// record and then goes away (connection closed with code 0 / all streams finished, connection
// left open / path lost). The real receiver runs with mutex acquisitions as scheduling points
// and every interleaving of its own threads (stream readers, control reader, main loop, writer,
// flusher) within the bound is explored - the whole-transfer phases cannot afford that depth.
// Oracle: a receiver that returns nil has the complete, identical tree.

type AbortCase struct {
	Streams int    `json:"streams"`
	Prefix  int    `json:"prefix"` // number of honest steps played before the abort
	Abort   string `json:"abort"`  // close | fin | loss
	Resume  bool   `json:"resume"`
}

func (a AbortCase) String() string {
	return fmt.Sprintf("honest-prefix=%d/%d streams=%d resume=%v then %s", a.Prefix, len(c02rSteps(a.Streams)), a.Streams, a.Resume, a.Abort)
}

var c02rM = manifest.Manifest{Root: "share", FileCount: 2, TotalBytes: 12, Items: []manifest.FileItem{
	{RelPath: "a", Size: 4, ID: "aaaaaaaaaaaaaaaa"},
	{RelPath: "b", Size: 8, ID: "bbbbbbbbbbbbbbbb"},
}}

var c02rData = map[string]string{"a": "abcd", "b": "efghijkl"}

type c02rStep struct {
	name string
	do   func(ctrl transfer.Stream, ds []transfer.Stream)
}

func c02rSteps(streams int) []c02rStep {
	ka, kb := fileKey(c02rM.Items[0]), fileKey(c02rM.Items[1])
	last := streams - 1
	return []c02rStep{
		{"header", func(c transfer.Stream, ds []transfer.Stream) { c.Write(encHeader(c02rM)) }},
		{"data-streams", func(c transfer.Stream, ds []transfer.Stream) { c.Write(encDataStreams(uint16(streams))) }},
		{"begin-a", func(c transfer.Stream, ds []transfer.Stream) { c.Write(encFileBegin("a", 4, 4, ka, 1)) }},
		{"chunk-a0", func(c transfer.Stream, ds []transfer.Stream) { ds[0].Write(encChunk(ka, 0, []byte("abcd"))) }},
		{"end-a", func(c transfer.Stream, ds []transfer.Stream) { c.Write(encFileEnd(ka)) }},
		{"begin-b", func(c transfer.Stream, ds []transfer.Stream) { c.Write(encFileBegin("b", 8, 4, kb, 1)) }},
		{"chunk-b0", func(c transfer.Stream, ds []transfer.Stream) { ds[0].Write(encChunk(kb, 0, []byte("efgh"))) }},
		{"chunk-b1", func(c transfer.Stream, ds []transfer.Stream) { ds[last].Write(encChunk(kb, 1, []byte("ijkl"))) }},
		{"end-b", func(c transfer.Stream, ds []transfer.Stream) { c.Write(encFileEnd(kb)) }},
		{"fin-data", func(c transfer.Stream, ds []transfer.Stream) {
			for _, d := range ds {
				d.Close()
			}
		}},
		{"end", func(c transfer.Stream, ds []transfer.Stream) { c.Write(encEnd()) }},
	}
}

type c02rOut struct {
	err      error
	returned bool
	outDir   string
}

var c02rCur *c02rOut

func runAbort(a AbortCase) {
	o := &c02rOut{outDir: filepath.Join(scratch, "out")}
	c02rCur = o
	os.RemoveAll(o.outDir)
	os.MkdirAll(o.outDir, 0755)
	qc, qs := quic.NewPair("conn0")
	cl, sv := wrapPair(qc, qs)
	var wg vrt.WaitGroup
	wg.Add(2)
	vrt.GoNamed("script", "S", func() {
		defer wg.Done()
		ctrl, ds, err := openStreams(context.Background(), cl, a.Streams)
		if err != nil {
			return
		}
		if a.Abort == "patient" {
			// a sender as patient as the real one: it writes End only once the receiver has
			// confirmed both files, then finishes its streams and waits for the receiver to end
			steps := c02rSteps(a.Streams)
			for _, st := range steps[:len(steps)-2] {
				st.do(ctrl, ds)
			}
			confirmed := 0
			for confirmed < 2 {
				typ, msg, err := transfer.VerifReadControlMessage(ctrl)
				if err != nil {
					return
				}
				if typ == 0x13 {
					if fd, ok := msg.(transfer.FileDone); ok && fd.OK {
						confirmed++
					}
				}
			}
			for _, st := range steps[len(steps)-2:] {
				st.do(ctrl, ds)
			}
			ctrl.Close()
			vrt.Block("wait-receiver", func() bool { return o.returned })
			cl.Close()
			return
		}
		for i, st := range c02rSteps(a.Streams) {
			if i >= a.Prefix {
				break
			}
			st.do(ctrl, ds)
		}
		// the receiver works through what was sent (the timer only fires once every thread is
		// blocked); then the sender goes away
		vrt.Sleep(50 * time.Millisecond)
		switch a.Abort {
		case "close":
			cl.Close()
		case "loss":
			qc.Lose()
		case "fin":
			for _, d := range ds {
				d.Close()
			}
			ctrl.Close()
			vrt.Block("wait-receiver", func() bool { return o.returned })
			cl.Close()
		}
	})
	vrt.GoNamed("R", "R", func() {
		defer wg.Done()
		_, o.err = transfer.RecvManifestMultiStream(context.Background(), sv, o.outDir, transfer.Options{Resume: a.Resume, NoRootDir: true, HashAlg: "crc32c", ParallelFiles: 2})
		o.returned = true
		sv.Close()
	})
	wg.Wait()
}

func checkAbort(a AbortCase, x *vrt.Exec) {
	rp := replayT{Mode: "c02r", Choices: append([]int{}, x.Choices()...), Extra: vlib.JSON(a)}
	o := c02rCur
	switch x.Outcome {
	case "ok":
	case "exit":
		return // a process exit with a non-zero status is a loud failure
	case "deadlock", "stall":
		sig := hangSig(x)
		sig["fault"] = "receiver-only/" + a.Abort
		res.Violate("hang", "xfer/c02", sig, fmt.Sprintf("%s: the sender is gone but the receiver does not return (%s): %v", a, x.Outcome, x.Blocked), rp)
		return
	case "panic":
		res.Violate("panic", "xfer/c02", map[string]any{"panic": x.Detail}, fmt.Sprintf("%s: panic %s", a, x.Detail), rp)
		return
	default:
		res.InfraError("%s: outcome %s %s", a, x.Outcome, x.Detail)
		return
	}
	if a.Abort == "patient" && o.err != nil {
		res.Violate("failure", "xfer/c02", map[string]any{"side": "receiver", "fault": "none", "class": "healthy-transfer-fails"},
			fmt.Sprintf("%s: a patient, honest sender delivered everything and the receiver returned %v", a, o.err), rp)
		return
	}
	if o.err != nil {
		return
	}
	for name, want := range c02rData {
		got, err := os.ReadFile(filepath.Join(o.outDir, name))
		if err != nil || string(got) != want {
			res.Violate("false-success", "xfer/c02", map[string]any{"side": "receiver", "fault": "receiver-only/" + a.Abort, "class": "incomplete-tree"},
				fmt.Sprintf("%s: the receiver reports success but %s is %q (read error %v), the sender's file is %q", a, name, got, err, want), rp)
			return
		}
	}
}

func c02rCfg() vrt.Config {
	cfg := c02Cfg()
	cfg.LockPoints = true
	cfg.Demote = true
	return cfg
}

// modeC02R enumerates abort cases x schedules.
func modeC02R() {
	res.Rule = "receiver-only: a scripted sender plays an honest two-file transfer up to each record and then goes away (connection closed with code 0 / every stream finished, connection left open / path lost); the real receiver's own threads are interleaved with mutex acquisitions as scheduling points and the deviations delay / demote (a demoted thread runs only when nothing else can); every case at deviation bound 1, the cases around the completion of a file at bound 2; non-trivial = distinct (case, trace)"
	thorough := vlib.F.Tier == "thorough"
	st := newStats()
	budget := 100 * time.Second
	if thorough {
		budget = 28 * time.Minute
	}
	deadline := time.Now().Add(budget)
	type job struct {
		a     AbortCase
		bound int
	}
	var jobs []job
	for _, streams := range []int{1, 2} {
		steps := len(c02rSteps(streams))
		for prefix := 2; prefix <= steps; prefix++ {
			for _, abort := range []string{"close", "fin", "loss"} {
				for _, resume := range []bool{true, false} {
					a := AbortCase{Streams: streams, Prefix: prefix, Abort: abort, Resume: resume}
					b := 1
					deep := abort != "loss" && resume && prefix >= 5 && prefix <= 9
					if deep && (thorough || (streams == 1 && (prefix == 5 || prefix == 7 || prefix == 8))) {
						b = 2
					}
					jobs = append(jobs, job{a, b})
				}
			}
		}
	}
	for _, streams := range []int{1, 2} {
		for _, resume := range []bool{true, false} {
			b := 2
			if streams == 2 && !thorough {
				b = 1
			}
			jobs = append(jobs, job{AbortCase{Streams: streams, Prefix: len(c02rSteps(streams)), Abort: "patient", Resume: resume}, b})
		}
	}
	for i, j := range jobs {
		a := j.a
		e := &vrt.Explorer{Cfg: c02rCfg(), Bound: j.bound, Deadline: deadline, Root: func() { runAbort(a) }}
		if j.bound >= 2 {
			// big: every shard takes its share of the first-level subtrees
			e.Shard, e.NShards = vlib.F.Shard, vlib.F.NShards
		} else if !vlib.Mine(i) {
			continue
		}
		e.Visit = func(x *vrt.Exec) bool {
			res.Nontrivial(fmt.Sprintf("c02r|%s|%x", a, x.Trace()))
			checkAbort(a, x)
			return true
		}
		e.Run()
		st.add(e)
		res.SampleSpread(int64(i), map[string]any{"receiver_only": a.String(), "bound": j.bound})
	}
	st.cases = len(jobs)
	st.finish()
}
