//go:build verif

// C14 part (a): the session store. Explicit-state search over operation histories on the real
// Store with a virtual clock and scripted randomness that forces join-code collisions, plus
// concurrent operation sets explored under the controlled scheduler with a linearizability
// oracle (porcupine).
package main

import (
	"fmt"
	"os"
	"sort"
	"strings"
	"time"

	"github.com/anishathalye/porcupine"
	"github.com/sheerbytes/sheerbytes/internal/session"
	"github.com/sheerbytes/sheerbytes/internal/verif/vlib"
	vrt "github.com/sheerbytes/sheerbytes/internal/verif/vrt"
)

var res *vlib.Result

type Op struct {
	Kind string `json:"k"` // create get delete count tick1 tickttl
	Ref  int    `json:"r"` // get/delete: index of an earlier create
}

func (o Op) String() string {
	if o.Kind == "get" || o.Kind == "delete" {
		return fmt.Sprintf("%s(#%d)", o.Kind, o.Ref)
	}
	return o.Kind
}

// reference model of live codes
type refSess struct {
	id, code string
	created  time.Time
	deleted  bool
}

type world struct {
	st      *session.Store
	ttl     time.Duration
	created []session.Session
	ref     []*refSess
	viol    []string
	cls     []string
}

func (w *world) violate(c, m string) {
	for _, x := range w.cls {
		if x == c {
			return
		}
	}
	w.cls = append(w.cls, c)
	w.viol = append(w.viol, m)
}

func (w *world) live(r *refSess) (bool, bool) { // (live, dontCare)
	if r.deleted {
		return false, false
	}
	if w.ttl <= 0 {
		return true, false
	}
	exp := r.created.Add(w.ttl)
	now := vrt.Now()
	if now.Equal(exp) {
		return false, true
	}
	return now.Before(exp), false
}

func (w *world) apply(o Op) bool {
	switch o.Kind {
	case "create":
		s := w.st.Create()
		// live codes must be pairwise distinct
		for _, r := range w.ref {
			if l, _ := w.live(r); l && r.code == s.JoinCode {
				w.violate("duplicate-live-code", fmt.Sprintf("new session got join code %s which a live session already has", s.JoinCode))
			}
			if r.id == s.ID {
				w.violate("duplicate-session-id", "session id reused")
			}
		}
		w.created = append(w.created, s)
		w.ref = append(w.ref, &refSess{id: s.ID, code: s.JoinCode, created: vrt.Now()})
	case "get":
		if o.Ref >= len(w.ref) {
			return false
		}
		r := w.ref[o.Ref]
		got, ok := w.st.GetByJoinCode(r.code)
		// expected: some live session has that code (this one, or a later one that was given the same code)
		want, dc := false, false
		var wantID string
		for _, q := range w.ref {
			if q.code == r.code {
				l, d := w.live(q)
				if d {
					dc = true
				}
				if l {
					want = true
					wantID = q.id
				}
			}
		}
		if !dc {
			if ok != want {
				w.violate("admission-mismatch", fmt.Sprintf("join code of session #%d: store admits=%v, lifetime model says %v", o.Ref, ok, want))
			} else if ok && got.ID != wantID {
				w.violate("code-resolves-to-wrong-session", fmt.Sprintf("code %s resolves to %s, live holder is %s", r.code, got.ID, wantID))
			}
		}
	case "delete":
		if o.Ref >= len(w.ref) {
			return false
		}
		w.st.Delete(w.ref[o.Ref].id)
		w.ref[o.Ref].deleted = true
	case "count":
		n := w.st.Count()
		min, max := 0, 0
		for _, r := range w.ref {
			if r.deleted {
				continue
			}
			max++
			if l, _ := w.live(r); l {
				min++
			}
		}
		if n < min || n > max {
			w.violate("count-out-of-range", fmt.Sprintf("Count()=%d, between %d live and %d not deleted expected", n, min, max))
		}
	case "tick1":
		vrt.Sleep(time.Second)
	case "tickttl":
		vrt.Sleep(5*time.Second + time.Millisecond)
	}
	return true
}

func (w *world) canon() string {
	// sessions by creation index with liveness and whether store still maps code
	codes := w.st.VerifCodes()
	var parts []string
	for i, r := range w.ref {
		l, _ := w.live(r)
		_, mapped := codes[r.code]
		age := vrt.Now().Sub(r.created)
		parts = append(parts, fmt.Sprintf("%d:%v/%v/%v/%d", i, l, r.deleted, mapped && codes[r.code] == r.id, age/time.Second))
	}
	return strings.Join(parts, ",") + fmt.Sprintf("|n=%d", w.st.Count())
}

func cfg(script []byte) vrt.Config {
	c := vrt.DefaultConfig()
	c.LockPoints = false
	c.RandScript = script
	return c
}

func runHist(ttl time.Duration, hist []Op) (*world, bool) {
	w := &world{st: session.NewStore(ttl), ttl: ttl}
	ok := true
	for _, o := range hist {
		if !w.apply(o) {
			ok = false
			break
		}
	}
	return w, ok
}

// ---- concurrent part ----

type cIn struct {
	Op   Op
	Code string
	ID   string
}
type cOut struct {
	Sess  session.Session
	Found bool
	N     int
}

type cState struct {
	codes map[string]string // code -> id
}

func (s cState) clone() cState {
	n := cState{codes: map[string]string{}}
	for k, v := range s.codes {
		n.codes[k] = v
	}
	return n
}
func (s cState) key() string {
	var ks []string
	for k, v := range s.codes {
		ks = append(ks, k+"="+v)
	}
	sort.Strings(ks)
	return strings.Join(ks, ",")
}

var model = porcupine.Model{
	Init: func() any { return cState{codes: map[string]string{}} },
	Step: func(state, in, out any) (bool, any) {
		s := state.(cState)
		i := in.(cIn)
		o := out.(cOut)
		switch i.Op.Kind {
		case "create":
			if _, dup := s.codes[o.Sess.JoinCode]; dup {
				return false, s
			}
			n := s.clone()
			n.codes[o.Sess.JoinCode] = o.Sess.ID
			return true, n
		case "get":
			id, ok := s.codes[i.Code]
			if ok != o.Found {
				return false, s
			}
			return !ok || id == o.Sess.ID, s
		case "delete":
			n := s.clone()
			for c, id := range n.codes {
				if id == i.ID {
					delete(n.codes, c)
				}
			}
			return true, n
		case "count":
			return o.N == len(s.codes), s
		}
		return true, s
	},
	Equal: func(a, b any) bool { return a.(cState).key() == b.(cState).key() },
}

func main() {
	res = vlib.Parse()
	res.Part = "store"
	res.Rule = "breadth-first search over histories of Create / GetByJoinCode / Delete / Count / clock advance on the real Store (TTL 0 and 5 s) with scripted randomness that makes join codes collide, states deduplicated by a canonical form; then 2-3 concurrent operations from small prefixes explored at delay bound 2 with a linearizability oracle; non-trivial = distinct state or distinct concurrent history"
	thorough := vlib.F.Tier == "thorough"
	depth := 6
	if thorough {
		depth = 8
	}
	var states, trans int64
	// Scripted randomness: session ids need 16 bytes, join codes 8. A short cyclic script makes
	// consecutive codes collide (the id bytes differ because the script position differs).
	// layout: id1(16) X(8) id2(16) X(8) Y(8) id3(16) Z(8): the second session's first code
	// collides with the first session's (if that is still mapped) and the retry yields Y.
	collide := []byte{}
	id := func(b byte) {
		for i := 0; i < 16; i++ {
			collide = append(collide, b+byte(i))
		}
	}
	code := func(b byte) {
		for i := 0; i < 8; i++ {
			collide = append(collide, b)
		}
	}
	id(10)
	code(1)
	id(50)
	code(1)
	code(2)
	id(90)
	code(3)
	for i := 0; i < 64; i++ { // slack so that further draws do not wrap into id1
		collide = append(collide, byte(200+i%40))
	}
	// a third script: the third session's first code collides with the first session's and the
	// replacement with the second session's (two collisions inside one Create): id1 X id2 Y id3 X Y Z
	first := collide
	collide = []byte{}
	id(10)
	code(1)
	id(50)
	code(2)
	id(90)
	code(1)
	code(2)
	code(3)
	id(130)
	code(1)
	code(3)
	code(2)
	code(4)
	for i := 0; i < 64; i++ {
		collide = append(collide, byte(200+i%40))
	}
	scripts := [][]byte{nil, first, collide}
	n := 0
	for _, ttl := range []time.Duration{0, 5 * time.Second} {
		for si, script := range scripts {
			n++
			if !vlib.Mine(n) {
				continue
			}
			seen := map[string]bool{}
			frontier := [][]Op{nil}
			for d := 0; d < depth && len(frontier) > 0; d++ {
				var next [][]Op
				for _, h := range frontier {
					ncreate := 0
					for _, o := range h {
						if o.Kind == "create" {
							ncreate++
						}
					}
					alpha := []Op{{Kind: "create"}, {Kind: "count"}, {Kind: "tick1"}, {Kind: "tickttl"}}
					for i := 0; i < ncreate; i++ {
						alpha = append(alpha, Op{"get", i}, Op{"delete", i})
					}
					for _, o := range alpha {
						if o.Kind == "create" && ncreate >= 3 {
							continue
						}
						hist := append(append([]Op{}, h...), o)
						var w *world
						if os.Getenv("VERIF_DEBUG") != "" {
							fmt.Fprintf(os.Stderr, "run ttl=%v script=%d %v\n", ttl, si, hist)
						}
						x := vrt.Run(cfg(script), nil, func() { w, _ = runHist(ttl, hist) })
						trans++
						res.Eval()
						hs := fmt.Sprint(hist)
						if x.Outcome != "ok" {
							res.Violate("hang", "c14/store", map[string]any{"outcome": x.Outcome, "detail": x.Detail}, fmt.Sprintf("ttl=%v script=%d %s: %s %s", ttl, si, hs, x.Outcome, x.Detail), map[string]any{"ttl": ttl.String(), "script": si, "history": hist})
							continue
						}
						for i, m := range w.viol {
							res.Violate("mismatch", "c14/store", map[string]any{"class": w.cls[i]}, fmt.Sprintf("ttl=%v script=%d after %s: %s", ttl, si, hs, m), map[string]any{"ttl": ttl.String(), "script": si, "history": hist})
						}
						if len(w.viol) > 0 {
							continue
						}
						k := w.canon()
						if !seen[k] {
							seen[k] = true
							states++
							res.Nontrivial(fmt.Sprintf("%v|%d|%s", ttl, si, k))
							next = append(next, hist)
							res.SampleSpread(states, map[string]any{"ttl": ttl.String(), "script": si, "history": hs})
						}
					}
				}
				frontier = next
			}
		}
	}
	// concurrent sets
	lin := map[string]bool{}
	var cexecs int64
	prefixes := [][]Op{{}, {{Kind: "create"}}, {{Kind: "create"}, {Kind: "create"}}}
	copsAll := []Op{{Kind: "create"}, {Kind: "get", Ref: 0}, {Kind: "delete", Ref: 0}, {Kind: "count"}, {Kind: "get", Ref: 1}, {Kind: "delete", Ref: 1}}
	for pi, pre := range prefixes {
		for a := 0; a < len(copsAll); a++ {
			for b := a; b < len(copsAll); b++ {
				for c := -1; c < len(copsAll); c++ {
					if c >= 0 && (c < b || !thorough && c > 2) {
						continue
					}
					n++
					if !vlib.Mine(n) {
						continue
					}
					ops := []Op{copsAll[a], copsAll[b]}
					if c >= 0 {
						ops = append(ops, copsAll[c])
					}
					skip := false
					for _, o := range ops {
						if (o.Kind == "get" || o.Kind == "delete") && o.Ref >= len(pre) {
							skip = true
						}
					}
					if skip {
						continue
					}
					for _, script := range [][]byte{nil} {
						var hist []porcupine.Operation
						ex := &vrt.Explorer{Cfg: func() vrt.Config { cc := cfg(script); cc.LockPoints = true; return cc }(), Bound: 2, Root: func() {
							hist = nil
							st := session.NewStore(0)
							var created []session.Session
							for range pre {
								s := st.Create()
								created = append(created, s)
								hist = append(hist, porcupine.Operation{ClientId: 0, Input: cIn{Op: Op{Kind: "create"}}, Call: int64(vrt.Step()), Output: cOut{Sess: s}, Return: int64(vrt.Step())})
							}
							var wg vrt.WaitGroup
							for ti, o := range ops {
								wg.Add(1)
								ti, o := ti, o
								vrt.GoNamed(fmt.Sprintf("t%d", ti), "w", func() {
									defer wg.Done()
									in := cIn{Op: o}
									var out cOut
									call := int64(vrt.Step())
									switch o.Kind {
									case "create":
										out.Sess = st.Create()
									case "get":
										in.Code = created[o.Ref].JoinCode
										out.Sess, out.Found = st.GetByJoinCode(in.Code)
									case "delete":
										in.ID = created[o.Ref].ID
										st.Delete(in.ID)
									case "count":
										out.N = st.Count()
									}
									hist = append(hist, porcupine.Operation{ClientId: ti + 1, Input: in, Call: call, Output: out, Return: int64(vrt.Step())})
								})
							}
							wg.Wait()
						}}
						ex.Visit = func(x *vrt.Exec) bool {
							cexecs++
							if x.Outcome != "ok" {
								res.Violate("hang", "c14/store", map[string]any{"outcome": x.Outcome, "detail": x.Detail}, fmt.Sprintf("concurrent %v after %v: %s %s", ops, pre, x.Outcome, x.Detail), nil)
								return true
							}
							key := fmt.Sprint(hist)
							if v, ok := lin[key]; ok {
								if !v {
									return true
								}
								return true
							}
							ok := porcupine.CheckOperations(model, hist)
							lin[key] = ok
							res.Nontrivial(fmt.Sprintf("C|%d|%s", pi, key))
							if !ok {
								res.Violate("mismatch", "c14/store", map[string]any{"class": "not-linearizable"}, fmt.Sprintf("concurrent %v after %v: history not linearizable: %s", ops, pre, key), nil)
							}
							return true
						}
						ex.Run()
						trans += ex.Execs
					}
				}
			}
		}
	}
	res.EvalN(cexecs)
	res.States = states + int64(len(lin))
	res.Trans = trans
	res.Validated = trans
	res.Extra["concurrent_executions"] = float64(cexecs)
	res.Extra["distinct_concurrent_histories"] = float64(len(lin))
	res.Finish()
}
