package vrt

import (
	"unsafe"
)

// Channels: the native channel is kept as buffer + identity; the scheduler decides when an
// operation may proceed and then performs it natively without blocking. Unbuffered
// rendezvous completes both parties in one step.

type pendingCase struct {
	send bool
	id   uintptr
	val  any
}
type pendingSel struct {
	cases []pendingCase
}
type selResult struct {
	idx int
	val any
	ok  bool
}

// Case is one arm of a select.
type Case struct {
	send    bool
	id      uintptr
	isNil   bool
	lenf    func() int
	capv    int
	tryRecv func() (any, bool, bool)
	trySend func() bool
	val     any
}

func chanPtr[T any](c <-chan T) uintptr { return *(*uintptr)(unsafe.Pointer(&c)) }

// CaseRecv builds a receive arm.
func CaseRecv[T any](c <-chan T) Case {
	return Case{id: chanPtr(c), isNil: c == nil, lenf: func() int { return len(c) }, capv: cap(c),
		tryRecv: func() (any, bool, bool) {
			select {
			case v, ok := <-c:
				return v, ok, true
			default:
				return nil, false, false
			}
		}}
}

// CaseSend builds a send arm.
func CaseSend[T any](c chan<- T, v T) Case {
	id := *(*uintptr)(unsafe.Pointer(&c))
	return Case{send: true, id: id, isNil: c == nil, lenf: func() int { return len(c) }, capv: cap(c), val: v,
		trySend: func() bool {
			select {
			case c <- v:
				return true
			default:
				return false
			}
		}}
}

// Sel is the result of a select.
type Sel struct {
	Index int
	val   any
	ok    bool
}

func (x *Exec) partner(self *Thread, id uintptr, wantSend bool) *Thread {
	for _, t := range x.threads {
		if t == self || t.done || t.killed || t.pend == nil || t.preset {
			continue
		}
		for _, pc := range t.pend.cases {
			if pc.id == id && pc.send == wantSend {
				return t
			}
		}
	}
	return nil
}

func (x *Exec) caseReady(self *Thread, c *Case) bool {
	if c.isNil {
		return false
	}
	if c.send {
		if x.closed[c.id] {
			return true // will panic
		}
		if c.lenf() < c.capv {
			return true
		}
		// A hand-off to a parked receiver exists only on an unbuffered channel: on a buffered
		// one a receiver that is still parked while the buffer holds data has logically been
		// woken already and will take the head of the buffer - handing it a later value
		// directly would break the channel's FIFO order.
		return c.capv == 0 && x.partner(self, c.id, false) != nil
	}
	if c.lenf() > 0 || x.closed[c.id] {
		return true
	}
	return x.partner(self, c.id, true) != nil
}

// Select performs a select over the cases; Index -1 means the default arm.
func Select(hasDefault bool, cases ...Case) Sel {
	x := X
	if x.teardown {
		// unwinding (deferred code): never block; behave as if nothing is ready
		return Sel{Index: -1}
	}
	self := x.cur
	pend := &pendingSel{}
	for _, c := range cases {
		if !c.isNil {
			pend.cases = append(pend.cases, pendingCase{send: c.send, id: c.id, val: c.val})
		}
	}
	self.pend = pend
	self.preset = false
	label := "chan"
	if len(cases) > 1 || hasDefault {
		label = "select"
	} else if len(cases) == 1 && cases[0].send {
		label = "send"
	} else if len(cases) == 1 {
		label = "recv"
	}
	x.yield(func() bool {
		if self.preset || hasDefault {
			return true
		}
		for i := range cases {
			if x.caseReady(self, &cases[i]) {
				return true
			}
		}
		return false
	}, label)
	self.pend = nil
	if self.preset { // a partner completed the rendezvous for us
		self.preset = false
		r := self.selRes
		k := -1
		for i, c := range cases {
			if !c.isNil {
				k++
				if k == r.idx {
					return Sel{Index: i, val: r.val, ok: r.ok}
				}
			}
		}
		panic("vrt: preset index")
	}
	ready := make([]int, 0, len(cases))
	for i := range cases {
		if x.caseReady(self, &cases[i]) {
			ready = append(ready, i)
		}
	}
	if len(ready) == 0 {
		if !hasDefault {
			panic("vrt: select woke with nothing ready")
		}
		return Sel{Index: -1}
	}
	pick := ready[0]
	if len(ready) > 1 {
		costs := make([]int, len(ready))
		for i := 1; i < len(ready); i++ {
			costs[i] = 1
		}
		pick = ready[x.choose(costs, "selcase")]
	}
	c := &cases[pick]
	if c.send {
		if x.closed[c.id] {
			panic("send on closed channel")
		}
		if c.lenf() < c.capv {
			if !c.trySend() {
				panic("vrt: model divergence: buffered send would block")
			}
			return Sel{Index: pick}
		}
		p := x.partner(self, c.id, false)
		x.complete(p, c.id, false, c.val, true)
		return Sel{Index: pick}
	}
	if c.lenf() > 0 {
		v, ok, done := c.tryRecv()
		if !done {
			panic("vrt: model divergence: buffered receive would block")
		}
		return Sel{Index: pick, val: v, ok: ok}
	}
	if x.closed[c.id] {
		return Sel{Index: pick, val: nil, ok: false}
	}
	p := x.partner(self, c.id, true)
	var v any
	for _, pc := range p.pend.cases {
		if pc.id == c.id && pc.send {
			v = pc.val
			break
		}
	}
	x.complete(p, c.id, true, nil, true)
	return Sel{Index: pick, val: v, ok: true}
}

func (x *Exec) complete(p *Thread, id uintptr, send bool, val any, ok bool) {
	for i, pc := range p.pend.cases {
		if pc.id == id && pc.send == send {
			p.selRes = selResult{idx: i, val: val, ok: ok}
			p.preset = true
			return
		}
	}
	panic("vrt: complete: partner case vanished")
}

// RecvValue extracts the received value of the chosen arm.
func RecvValue[T any](c <-chan T, s Sel) T {
	if s.val == nil {
		var z T
		return z
	}
	return s.val.(T)
}

// RecvValue2 extracts value and ok.
func RecvValue2[T any](c <-chan T, s Sel) (T, bool) { return RecvValue(c, s), s.ok }

// Recv is `<-c`.
func Recv[T any](c <-chan T) T {
	if X.teardown {
		var z T
		return z
	}
	return RecvValue(c, Select(false, CaseRecv(c)))
}

// Recv2 is `v, ok := <-c`.
func Recv2[T any](c <-chan T) (T, bool) {
	if X.teardown {
		var z T
		return z, false
	}
	return RecvValue2(c, Select(false, CaseRecv(c)))
}

// Send is `c <- v`.
func Send[T any](c chan<- T, v T) {
	if X.teardown {
		return
	}
	Select(false, CaseSend(c, v))
}

// Close is close(c): records the closure for the scheduler and closes natively, so that
// uninstrumented observers of the channel see it too.
func Close[T any](c chan T) {
	x := X
	if x.teardown {
		return
	}
	id := *(*uintptr)(unsafe.Pointer(&c))
	if c == nil {
		panic("close of nil channel")
	}
	if x.closed[id] {
		panic("close of closed channel")
	}
	x.closed[id] = true
	x.keep = append(x.keep, c) // the address must not be reused while we key on it
	close(c)
	x.yield(nil, "close")
}

// CloseSendOnly is close(c) for a send-only channel value.
func CloseSendOnly[T any](c chan<- T) {
	x := X
	if x.teardown {
		return
	}
	id := *(*uintptr)(unsafe.Pointer(&c))
	if c == nil {
		panic("close of nil channel")
	}
	if x.closed[id] {
		panic("close of closed channel")
	}
	x.closed[id] = true
	x.keep = append(x.keep, c) // the address must not be reused while we key on it
	close(c)
	x.yield(nil, "close")
}

// RangeChan is `for v := range c`.
func RangeChan[T any](c <-chan T) func(func(T) bool) {
	return func(yield func(T) bool) {
		for {
			v, ok := Recv2(c)
			if !ok || !yield(v) {
				return
			}
		}
	}
}

// IsClosed reports whether the scheduler has seen close(c).
func IsClosed[T any](c <-chan T) bool { return X.closed[chanPtr(c)] }

// CloseQuiet closes c like Close but is not a scheduling point (for environment models that
// run inside timer callbacks).
func CloseQuiet[T any](c chan T) {
	x := X
	if x.teardown {
		return
	}
	id := *(*uintptr)(unsafe.Pointer(&c))
	if x.closed[id] {
		return
	}
	x.closed[id] = true
	x.keep = append(x.keep, c)
	close(c)
}
