//go:build verif

package ice

// VerifTurn is what the client understood of one TURN server URL.
type VerifTurn struct {
	Addr, Username, Password, Realm, ServerName string
	UseTCP, UseTLS, InsecureTLS                 bool
}

// VerifParseTurnServer runs the client's real TURN URL parser.
func VerifParseTurnServer(raw string) (VerifTurn, error) {
	c, err := parseTurnServer(raw)
	if err != nil {
		return VerifTurn{}, err
	}
	return VerifTurn{Addr: c.addr, Username: c.username, Password: c.password, Realm: c.realm, ServerName: c.serverName,
		UseTCP: c.useTCP, UseTLS: c.useTLS, InsecureTLS: c.insecureTLS}, nil
}
