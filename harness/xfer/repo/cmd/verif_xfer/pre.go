//go:build verif

package main

import (
	"os"
	"path/filepath"
	"strconv"
	"strings"

	"github.com/sheerbytes/sheerbytes/internal/transfer"
)

// applyPre materialises a pre-existing state of the output directory with the repository's own
// sidecar API (what an interrupted earlier run leaves behind):
//
//	complete      every file fully written and every chunk marked
//	partial       the first half (rounded up) of every file's chunks written and marked
//	holes         even-numbered chunks written and marked (out-of-order completion)
//	firstchunk    only chunk 0 of the first file written and marked
//	stale-longer  files exist, longer than the source, with foreign bytes and no metadata
//	stale-shorter files exist, shorter than the source, foreign bytes, no metadata
//	<pattern>@N   the pattern as left by a run that used chunk size N instead of this run's
//	<pattern>!nodata / !short   afterwards the user deleted / halved the output files; the hidden
//	              metadata directory stays (it then describes bytes that are no longer there)
//	...!rootedmeta  the metadata lies where a run *with* a root directory keeps it
//	              (<out>/<root>/.thruflux_resumedata), the place a flat run falls back to
func applyPre(p *Prepared, outDir string) {
	pattern, preChunk := p.Case.Pre, p.Case.Chunk
	after := ""
	if i := strings.IndexByte(pattern, '!'); i >= 0 {
		pattern, after = pattern[:i], pattern[i+1:]
	}
	if i := strings.IndexByte(pattern, '@'); i >= 0 {
		n, _ := strconv.Atoi(pattern[i+1:])
		pattern, preChunk = pattern[:i], uint32(n)
	}
	base := filepath.Join(outDir, p.OutBase)
	os.MkdirAll(base, 0755)
	nfile := -1
	for _, it := range p.M.Items {
		if it.IsDir {
			continue
		}
		nfile++
		want := p.Files[it.RelPath]
		fp := filepath.Join(base, filepath.FromSlash(it.RelPath))
		os.MkdirAll(filepath.Dir(fp), 0755)
		switch pattern {
		case "stale-longer":
			b := make([]byte, len(want)+7)
			for i := range b {
				b[i] = 0xEE
			}
			os.WriteFile(fp, b, 0644)
			continue
		case "stale-shorter":
			n := len(want) / 2
			b := make([]byte, n)
			for i := range b {
				b[i] = 0xEE
			}
			os.WriteFile(fp, b, 0644)
			continue
		}
		chunk := int64(preChunk)
		total := (it.Size + chunk - 1) / chunk
		if total == 0 {
			os.WriteFile(fp, nil, 0644)
			continue
		}
		data := make([]byte, it.Size)
		metaBase := base
		if strings.Contains(after, "rootedmeta") && p.M.Root != "" {
			metaBase = filepath.Join(outDir, p.M.Root)
			os.MkdirAll(metaBase, 0755)
		}
		sc, err := transfer.CreateSidecar(transfer.SidecarPath(metaBase, "", it.ID), it.ID, it.Size, preChunk)
		if err != nil {
			panic(err)
		}
		for i := int64(0); i < total; i++ {
			mark := false
			switch pattern {
			case "complete":
				mark = true
			case "partial":
				mark = i < (total+1)/2
			case "holes":
				mark = i%2 == 0
			case "firstchunk":
				mark = i == 0 && nfile == 0
			}
			if mark {
				lo, hi := i*chunk, (i+1)*chunk
				if hi > it.Size {
					hi = it.Size
				}
				copy(data[lo:hi], want[lo:hi])
				sc.MarkComplete(uint32(i))
			}
		}
		os.WriteFile(fp, data, 0644)
		if err := sc.Flush(); err != nil {
			panic(err)
		}
		switch {
		case strings.Contains(after, "nodata"):
			os.Remove(fp)
		case strings.Contains(after, "short"):
			os.Truncate(fp, it.Size/2)
		}
	}
}
