//go:build verif

// C06 part (a): LoadSidecar / LoadOrCreateSidecarWithFallback on every single-bit flip and every
// truncation of valid sidecars, on identity rewrites with a recomputed checksum and on all tiny
// files (engine E3).
package main

import (
	"encoding/binary"
	"fmt"
	"hash/crc32"
	"os"
	"path/filepath"

	"github.com/sheerbytes/sheerbytes/internal/app"
	"github.com/sheerbytes/sheerbytes/internal/transfer"
	"github.com/sheerbytes/sheerbytes/internal/verif/vlib"
)

var res *vlib.Result
var dir string

type shape struct {
	ID    string
	Size  int64
	Chunk uint32
	Bits  []uint32
}

func build(s shape) []byte {
	p := filepath.Join(dir, "valid.sbxmap")
	os.Remove(p)
	sc, err := transfer.CreateSidecar(p, s.ID, s.Size, s.Chunk)
	if err != nil {
		panic(err)
	}
	for _, b := range s.Bits {
		sc.MarkComplete(b)
	}
	if err := sc.Flush(); err != nil {
		panic(err)
	}
	b, _ := os.ReadFile(p)
	return b
}

func countBits(b []byte) int {
	n := 0
	for _, v := range b {
		for v != 0 {
			v &= v - 1
			n++
		}
	}
	return n
}

// trusted: after writing data as the sidecar of (id,size,chunk), does the loader hand back any
// completed chunk? Returns the number of chunks it would skip, -1 on error.
func trusted(data []byte, s shape) (int, error, bool) {
	p := filepath.Join(dir, "case.sbxmap")
	os.WriteFile(p, data, 0644)
	panicked := false
	var n int
	var err error
	func() {
		defer func() {
			if r := recover(); r != nil {
				panicked = true
				err = fmt.Errorf("panic: %v", r)
			}
		}()
		var sc *transfer.Sidecar
		sc, err = transfer.LoadOrCreateSidecarWithFallback(p, "", s.ID, s.Size, s.Chunk)
		if err == nil {
			n = countBits(sc.MarshalBitmap())
		}
	}()
	os.Remove(p)
	return n, err, panicked
}

func violate(class string, s shape, what string, rp any) {
	res.Violate("mismatch", "c06/sidecar", map[string]any{"class": class}, what, rp)
}

func crcTable() *crc32.Table { return crc32.MakeTable(crc32.Castagnoli) }

func reseal(b []byte) []byte {
	out := append([]byte(nil), b[:len(b)-4]...)
	var c [4]byte
	binary.BigEndian.PutUint32(c[:], crc32.Checksum(out, crcTable()))
	return append(out, c[:]...)
}

func main() {
	res = vlib.Parse()
	res.Part = "sidecar"
	res.Rule = "every single-bit flip and every truncation of valid metadata files of several shapes, identity fields rewritten with the checksum recomputed, all files of 0-2 bytes; detection and clearing of leftover metadata by the receiver CLI for 5 root names x 2 root modes x every directory the loader consults; a case is non-trivial when the file differs from the valid one; distinct by (shape, mutation)"
	dir = os.Getenv("VERIF_SCRATCH")
	if dir == "" {
		dir, _ = os.MkdirTemp("/dev/shm", "c06a")
		defer os.RemoveAll(dir)
	}
	shapes := []shape{
		{"0123456789abcdef", 12, 4, []uint32{0, 1}},
		{"fedcba9876543210", 1, 4, []uint32{0}},
		{"00000000000000aa", 70001, 7, []uint32{0, 1, 2, 3, 9, 500, 9999, 10000}},
		{"", 33, 8, []uint32{4}},
	}
	n := 0
	for si, s := range shapes {
		valid := build(s)
		if k, err, _ := trusted(valid, s); err != nil || k != len(s.Bits) {
			res.InfraError("valid sidecar of shape %d not accepted: %v bits=%d", si, err, k)
			continue
		}
		// bit flips
		for i := 0; i < len(valid)*8; i++ {
			n++
			if !vlib.Mine(n) {
				continue
			}
			res.Eval()
			res.Nontrivial(fmt.Sprintf("%d|flip|%d", si, i))
			d := append([]byte(nil), valid...)
			d[i/8] ^= 1 << uint(i%8)
			k, err, pan := trusted(d, s)
			rp := map[string]any{"shape": si, "mutation": "flip", "bit": i}
			if pan {
				violate("panic", s, fmt.Sprintf("shape %d: bit %d flipped: %v", si, i, err), rp)
			} else if err == nil && k > 0 {
				violate("damaged-metadata-trusted", s, fmt.Sprintf("shape %d: bit %d flipped, yet %d chunks are still reported complete", si, i, k), rp)
			}
			res.SampleSpread(int64(n), rp)
		}
		// truncations
		for l := 0; l < len(valid); l++ {
			n++
			if !vlib.Mine(n) {
				continue
			}
			res.Eval()
			res.Nontrivial(fmt.Sprintf("%d|trunc|%d", si, l))
			k, err, pan := trusted(valid[:l], s)
			rp := map[string]any{"shape": si, "mutation": "truncate", "len": l}
			if pan {
				violate("panic", s, fmt.Sprintf("shape %d truncated to %d bytes: %v", si, l, err), rp)
			} else if err == nil && k > 0 {
				violate("damaged-metadata-trusted", s, fmt.Sprintf("shape %d truncated to %d bytes, yet %d chunks reported complete", si, l, k), rp)
			}
		}
		// identity rewrites with a valid checksum: metadata of "a different file"
		// layout: magic4 ver2 chunk4 size8 total4 idlen2 id.. bmlen4 bm.. crc4
		type rw struct {
			name string
			f    func(b []byte) []byte
		}
		rws := []rw{
			{"other-chunk-size", func(b []byte) []byte { binary.BigEndian.PutUint32(b[6:], s.Chunk+1); return b }},
			{"other-size", func(b []byte) []byte { binary.BigEndian.PutUint64(b[10:], uint64(s.Size+1)); return b }},
			{"other-size-0", func(b []byte) []byte { binary.BigEndian.PutUint64(b[10:], 0); return b }},
			{"other-id", func(b []byte) []byte {
				if len(s.ID) == 0 {
					return nil
				}
				b[24] ^= 0x01
				return b
			}},
		}
		for _, r := range rws {
			n++
			if !vlib.Mine(n) {
				continue
			}
			d := r.f(append([]byte(nil), valid...))
			if d == nil {
				continue
			}
			d = reseal(d)
			res.Eval()
			res.Nontrivial(fmt.Sprintf("%d|%s", si, r.name))
			k, err, pan := trusted(d, s)
			rp := map[string]any{"shape": si, "mutation": r.name}
			if pan {
				violate("panic", s, fmt.Sprintf("shape %d %s: %v", si, r.name, err), rp)
			} else if err == nil && k > 0 {
				violate("foreign-metadata-trusted", s, fmt.Sprintf("shape %d: metadata of a different file (%s) accepted: %d chunks reported complete", si, r.name, k), rp)
			}
		}
		// internally consistent metadata written for another identity: what an earlier run with
		// another chunk size, another version of the file or another file under the same name
		// leaves behind. Every bit of it is marked, so trusting it would skip the whole file.
		type other struct {
			name string
			sh   shape
		}
		var others []other
		for _, c := range []uint32{s.Chunk * 2, s.Chunk / 2, s.Chunk + 1, s.Chunk - 1, 1} {
			if c >= 1 && c != s.Chunk {
				others = append(others, other{fmt.Sprintf("consistent-other-chunk-size-%d", c), shape{s.ID, s.Size, c, nil}})
			}
		}
		for _, sz := range []int64{s.Size + 1, s.Size - 1, s.Size * 2, int64(s.Chunk)} {
			if sz >= 1 && sz != s.Size {
				others = append(others, other{fmt.Sprintf("consistent-other-size-%d", sz), shape{s.ID, sz, s.Chunk, nil}})
			}
		}
		others = append(others, other{"consistent-other-id", shape{s.ID + "x", s.Size, s.Chunk, nil}})
		for _, o := range others {
			n++
			if !vlib.Mine(n) {
				continue
			}
			total := (o.sh.Size + int64(o.sh.Chunk) - 1) / int64(o.sh.Chunk)
			if total > 4096 {
				total = 4096
			}
			for i := int64(0); i < total; i++ {
				o.sh.Bits = append(o.sh.Bits, uint32(i))
			}
			d := build(o.sh)
			res.Eval()
			res.Nontrivial(fmt.Sprintf("%d|%s", si, o.name))
			k, err, pan := trusted(d, s)
			rp := map[string]any{"shape": si, "mutation": o.name}
			if pan {
				violate("panic", s, fmt.Sprintf("shape %d %s: %v", si, o.name, err), rp)
			} else if err == nil && k > 0 {
				violate("foreign-metadata-trusted", s, fmt.Sprintf("shape %d (id %q size %d chunk %d): valid metadata written for %s (id %q size %d chunk %d) is adopted: %d chunks reported complete", si, s.ID, s.Size, s.Chunk, o.name, o.sh.ID, o.sh.Size, o.sh.Chunk, k), rp)
			}
		}
	}
	// all files of 0..2 bytes
	s := shapes[0]
	for l := 0; l <= 2; l++ {
		max := 1
		for i := 0; i < l; i++ {
			max *= 256
		}
		for v := 0; v < max; v++ {
			n++
			if !vlib.Mine(n) {
				continue
			}
			d := make([]byte, l)
			for i := 0; i < l; i++ {
				d[i] = byte(v >> (8 * uint(i)))
			}
			res.Eval()
			k, err, pan := trusted(d, s)
			if pan || (err == nil && k > 0) {
				violate("tiny-file", s, fmt.Sprintf("file %x: bits=%d err=%v", d, k, err), map[string]any{"bytes": vlib.Hex(d)})
			}
		}
	}
	userChoice(&n)
	res.Finish()
}

// userChoice: the receiver CLI asks "resume or overwrite" when it finds leftover metadata, and on
// "overwrite" removes it. For every root name, both root-directory modes and every directory the
// receiver's loader consults (primary and fallback, computed the way RecvManifestMultiStream
// does), a complete stale sidecar placed there must (a) be detected and (b) after the clearing no
// longer give the loader a single chunk to skip.
func userChoice(n *int) {
	s := shape{"00000000000000c6", 12, 4, []uint32{0, 1, 2}}
	for ri, root := range []string{"", "snap", "d e", "a.b", ".hidden"} {
		for _, noRoot := range []bool{false, true} {
			for where := 0; where < 2; where++ {
				*n++
				if !vlib.Mine(*n) {
					continue
				}
				out := filepath.Join(dir, fmt.Sprintf("uc-%d-%v-%d", ri, noRoot, where))
				os.RemoveAll(out)
				rooted := filepath.Join(out, root)
				base := rooted
				if noRoot {
					base = out
				}
				primary := transfer.SidecarPath(base, "", s.ID)
				fallback := ""
				if rooted != base {
					fallback = transfer.SidecarPath(rooted, "", s.ID)
				}
				loc := primary
				if where == 1 {
					if fallback == "" {
						continue
					}
					loc = fallback
				}
				res.Eval()
				res.Nontrivial(fmt.Sprintf("uc|%d|%v|%d", ri, noRoot, where))
				stale := build(s)
				os.MkdirAll(filepath.Dir(loc), 0755)
				os.WriteFile(loc, stale, 0644)
				rp := map[string]any{"root": root, "norootdir": noRoot, "stale_in": []string{"primary", "fallback"}[where]}
				sc, err := transfer.LoadOrCreateSidecarWithFallback(primary, fallback, s.ID, s.Size, s.Chunk)
				if err != nil || countBits(sc.MarshalBitmap()) != len(s.Bits) {
					res.InfraError("user-choice %v: the stale sidecar is not what the loader would use: %v", rp, err)
					continue
				}
				os.WriteFile(loc, stale, 0644) // in case the loader moved it: back where it was
				if !app.VerifHasResumeData(out, root) {
					violate("leftover-metadata-not-detected", s, fmt.Sprintf("stale metadata in the %s directory (root %q, no-root-dir %v) is used by the receiver's loader but not detected: the resume/overwrite question is never asked", rp["stale_in"], root, noRoot), rp)
					os.RemoveAll(out)
					continue
				}
				if err := app.VerifClearResumeData(out, root); err != nil {
					res.InfraError("clearResumeData: %v", err)
				}
				sc, err = transfer.LoadOrCreateSidecarWithFallback(primary, fallback, s.ID, s.Size, s.Chunk)
				if err == nil && countBits(sc.MarshalBitmap()) > 0 {
					violate("overwrite-keeps-stale-metadata", s, fmt.Sprintf("after the user chose overwrite, stale metadata in the %s directory (root %q, no-root-dir %v) still makes the receiver skip %d chunks", rp["stale_in"], root, noRoot, countBits(sc.MarshalBitmap())), rp)
				}
				os.RemoveAll(out)
			}
		}
	}
}
