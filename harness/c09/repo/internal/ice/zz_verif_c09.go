//go:build verif

package ice

import "log/slog"

// VerifNewProber builds a Prober without sockets, STUN or TURN (overlay only): ProbeAndDial only
// needs the logger and lazily creates its transport.
func VerifNewProber(logger *slog.Logger) *Prober {
	return &Prober{logger: logger}
}
