//go:build verif

// C08 harness: transport authentication against an active attacker (engine E2: exhaustive
// search over attacker strategies on the real authenticateTransport, run under the controlled
// scheduler over the vquic model, in which both ends of one connection export the same keying
// material and different connections export different material).
package main

import (
	"context"
	"fmt"
	"io"
	"log/slog"
	"net"
	"strings"
	"time"

	"github.com/sheerbytes/sheerbytes/internal/app"
	"github.com/sheerbytes/sheerbytes/internal/transfer"
	"github.com/sheerbytes/sheerbytes/internal/transferquic"
	quic "github.com/sheerbytes/sheerbytes/internal/verif/venv/vquic"
	"github.com/sheerbytes/sheerbytes/internal/verif/vlib"
	vrt "github.com/sheerbytes/sheerbytes/internal/verif/vrt"
)

var res *vlib.Result
var logger = slog.New(slog.NewTextHandler(io.Discard, nil))

const code = "ALPHA-7"
const otherCode = "BRAVO-9"

func wrap(cl, sv *quic.Conn) (transfer.Conn, transfer.Conn) {
	tc, err := transferquic.NewDialer(cl, logger).Dial(context.Background(), "peer")
	if err != nil {
		panic(err)
	}
	return tc, transferquic.VerifWrapConn(sv, logger)
}

// byteLog records everything written, per connection end and stream.
type byteLog struct {
	writes []string // "<conn>/<writer>:<stream>:<n>"
	data   map[string][]byte
}

func (b *byteLog) StreamOpened(s *quic.Stream) {}
func (b *byteLog) BeforeWrite(s *quic.Stream, p []byte) (int, quic.Fault) {
	k := fmt.Sprintf("%s:%d", s.Conn().Name, int64(s.StreamID()))
	if b.data == nil {
		b.data = map[string][]byte{}
	}
	b.data[k] = append(b.data[k], p...)
	b.writes = append(b.writes, fmt.Sprintf("%s:%d", k, len(p)))
	return len(p), quic.NoFault
}

type honestRun struct {
	sErr, rErr error
	sMsg, rMsg []byte
}

// honest runs sender and receiver on the two ends of one connection.
func honest(codeS, codeR string) *honestRun {
	h := &honestRun{}
	cl, sv := quic.NewPair("h")
	bl := &byteLog{}
	cl.Obs, sv.Obs = bl, bl
	sc, rc := wrap(cl, sv)
	var wg vrt.WaitGroup
	wg.Add(2)
	vrt.GoNamed("S", "S", func() {
		defer wg.Done()
		ctx, cancel := vrt.WithTimeout(context.Background(), 10*time.Second)
		defer cancel()
		h.sErr = app.VerifAuthenticate(ctx, sc, codeS, app.VerifRoleSender)
	})
	vrt.GoNamed("R", "R", func() {
		defer wg.Done()
		ctx, cancel := vrt.WithTimeout(context.Background(), 10*time.Second)
		defer cancel()
		h.rErr = app.VerifAuthenticate(ctx, rc, codeR, app.VerifRoleReceive)
	})
	wg.Wait()
	h.sMsg = bl.data["h/c:0"]
	h.rMsg = bl.data["h/s:0"]
	sc.Close()
	rc.Close()
	return h
}

// tamper alters one authentication message of an otherwise honest session in flight: a single
// bit flipped, or the message cut short (the connection then closes, as it would for a peer
// that stops in the middle).
type tamper struct {
	byteLog
	key  string // "<conn>/<writer>:<stream>" of the message to alter
	mut  string // flip:<bit> | trunc:<len>
	seen int
}

func (t *tamper) BeforeWrite(s *quic.Stream, p []byte) (int, quic.Fault) {
	t.byteLog.BeforeWrite(s, p)
	k := fmt.Sprintf("%s:%d", s.Conn().Name, int64(s.StreamID()))
	if k != t.key {
		return len(p), quic.NoFault
	}
	lo := t.seen
	t.seen += len(p)
	var n int
	switch {
	case strings.HasPrefix(t.mut, "flip:"):
		fmt.Sscanf(t.mut, "flip:%d", &n)
		if n/8 >= lo && n/8 < lo+len(p) {
			p[n/8-lo] ^= 1 << uint(n%8)
		}
	case strings.HasPrefix(t.mut, "trunc:"):
		fmt.Sscanf(t.mut, "trunc:%d", &n)
		if n >= lo && n < lo+len(p) {
			return n - lo, quic.FaultPeerClose
		}
	}
	return len(p), quic.NoFault
}

// honestTampered: both ends honest, same code, one session - and one message altered in flight.
func honestTampered(dir, mut string) *honestRun {
	h := &honestRun{}
	cl, sv := quic.NewPair("h")
	key := "h/c:0"
	if dir == "receiver-to-sender" {
		key = "h/s:0"
	}
	tp := &tamper{key: key, mut: mut}
	cl.Obs, sv.Obs = tp, tp
	sc, rc := wrap(cl, sv)
	var wg vrt.WaitGroup
	wg.Add(2)
	vrt.GoNamed("S", "S", func() {
		defer wg.Done()
		ctx, cancel := vrt.WithTimeout(context.Background(), 10*time.Second)
		defer cancel()
		h.sErr = app.VerifAuthenticate(ctx, sc, code, app.VerifRoleSender)
	})
	vrt.GoNamed("R", "R", func() {
		defer wg.Done()
		ctx, cancel := vrt.WithTimeout(context.Background(), 10*time.Second)
		defer cancel()
		h.rErr = app.VerifAuthenticate(ctx, rc, code, app.VerifRoleReceive)
	})
	wg.Wait()
	sc.Close()
	rc.Close()
	return h
}

func checkHonest(cs, cr string) {
	var h *honestRun
	x := vrt.Run(cfg(), nil, func() { h = honest(cs, cr) })
	res.Eval()
	rp := map[string]any{"honest": true, "code_s": cs, "code_r": cr}
	same := cs == cr
	near := "unrelated"
	if !same && strings.EqualFold(strings.TrimSpace(cs), strings.TrimSpace(cr)) {
		near = "differ-in-case-or-white-space"
	}
	if x.Outcome != "ok" {
		res.Violate("hang", "c08/auth", map[string]any{"position": "honest", "outcome": x.Outcome}, fmt.Sprintf("honest %q/%q: %s", cs, cr, x.Outcome), rp)
		return
	}
	if same && (h.sErr != nil || h.rErr != nil) {
		res.Violate("rejected", "c08/auth", map[string]any{"position": "honest", "same_code": true}, fmt.Sprintf("honest pair with the same code %q on one session rejected: %v / %v", cs, h.sErr, h.rErr), rp)
	}
	if !same && (h.sErr == nil || h.rErr == nil) {
		res.Violate("accepted", "c08/auth", map[string]any{"position": "honest", "same_code": false, "codes": near}, fmt.Sprintf("different join codes %q vs %q on one session: sender %v receiver %v (nil = accepted)", cs, cr, h.sErr, h.rErr), rp)
	}
}

func checkTamper(dir, m string) {
	var h *honestRun
	x := vrt.Run(cfg(), nil, func() { h = honestTampered(dir, m) })
	res.Eval()
	rp := map[string]any{"tamper": dir, "mut": m}
	if x.Outcome != "ok" {
		res.Violate("hang", "c08/auth", map[string]any{"position": "in-flight", "outcome": x.Outcome}, fmt.Sprintf("honest session, %s message altered (%s): %s %s", dir, m, x.Outcome, x.Detail), rp)
		return
	}
	victimErr, victim := h.rErr, "receiver"
	if dir == "receiver-to-sender" {
		victimErr, victim = h.sErr, "sender"
	}
	if victimErr == nil {
		cls := "flip"
		if strings.HasPrefix(m, "trunc") {
			cls = "truncation"
		}
		res.Violate("accepted", "c08/auth", map[string]any{"position": "in-flight", "alteration": cls, "victim": victim},
			fmt.Sprintf("honest session with the same code: the %s message was altered in flight (%s) and the honest %s accepted it", dir, m, victim), rp)
	}
}

// Move of the attacker: what it sends where an honest party expects a message.
type Move struct {
	Base string `json:"base"` // name of a known message, or "nothing"
	Mut  string `json:"mut"`  // "", "flip:<bit>", "trunc:<len>", "role:<byte>"
}

func (m Move) String() string {
	if m.Mut == "" {
		return m.Base
	}
	return m.Base + "+" + m.Mut
}

func applyMut(b []byte, mut string) []byte {
	out := append([]byte(nil), b...)
	var n int
	switch {
	case mut == "":
	case strings.HasPrefix(mut, "flip:"):
		fmt.Sscanf(mut, "flip:%d", &n)
		if n/8 < len(out) {
			out[n/8] ^= 1 << uint(n%8)
		}
	case strings.HasPrefix(mut, "trunc:"):
		fmt.Sscanf(mut, "trunc:%d", &n)
		if n < len(out) {
			out = out[:n]
		}
	case strings.HasPrefix(mut, "role:"):
		fmt.Sscanf(mut, "role:%d", &n)
		if len(out) > 1 {
			out[1] = byte(n)
		}
	}
	return out
}

type Scenario struct {
	Position string `json:"position"` // rogue-dialer | rogue-listener | relay
	M1       Move   `json:"m1"`
	M2       Move   `json:"m2,omitempty"`
}

func (s Scenario) String() string { return fmt.Sprintf("%s[%s][%s]", s.Position, s.M1, s.M2) }

type outcome struct {
	sErr, rErr error
	sRan, rRan bool
}

var lastOut *outcome

// knowledge: messages harvested from two earlier honest runs of the same code on other
// connections, plus what the attacker can compute itself.
type knowledge map[string][]byte

func runScenario(sc Scenario) {
	o := &outcome{}
	lastOut = o
	// harvest (fresh each execution: nonces come from the per-execution random stream)
	h1 := honest(code, code)
	h2 := honest(code, code)
	K := knowledge{"prior1-sender": h1.sMsg, "prior1-receiver": h1.rMsg, "prior2-sender": h2.sMsg, "prior2-receiver": h2.rMsg}
	nonce := []byte("attacker-nonce-1")
	pick := func(m Move, live knowledge) []byte {
		if m.Base == "nothing" {
			return nil
		}
		b, ok := live[m.Base]
		if !ok {
			b = K[m.Base]
		}
		return applyMut(b, m.Mut)
	}
	switch sc.Position {
	case "rogue-dialer":
		// attacker <-> honest receiver; the attacker is the client end of this TLS session
		cl, sv := quic.NewPair("a")
		ac, rc := wrap(cl, sv)
		live := knowledge{}
		live["forged-sender-othercode"], _ = app.VerifBuildAuthMessage(ac, otherCode, app.VerifRoleSender, nonce)
		live["forged-receiver-othercode"], _ = app.VerifBuildAuthMessage(ac, otherCode, app.VerifRoleReceive, nonce)
		live["forged-sender-emptycode"], _ = app.VerifBuildAuthMessage(ac, "", app.VerifRoleSender, nonce)
		var wg vrt.WaitGroup
		wg.Add(2)
		vrt.GoNamed("R", "R", func() {
			defer wg.Done()
			ctx, cancel := vrt.WithTimeout(context.Background(), 10*time.Second)
			defer cancel()
			o.rErr = app.VerifAuthenticate(ctx, rc, code, app.VerifRoleReceive)
			o.rRan = true
		})
		vrt.GoNamed("attacker", "A", func() {
			defer wg.Done()
			st, err := ac.OpenStream(context.Background())
			if err != nil {
				return
			}
			if b := pick(sc.M1, live); b != nil {
				st.Write(b)
			}
			// read whatever the victim answers, then try a second message
			buf := make([]byte, 64)
			vrt.GoNamed("attacker-read", "A", func() { st.Read(buf) })
			if b := pick(sc.M2, live); b != nil {
				vrt.Sleep(time.Second)
				st.Write(b)
			}
			vrt.Sleep(12 * time.Second)
			st.Close()
			ac.Close()
		})
		wg.Wait()
	case "rogue-listener":
		cl, sv := quic.NewPair("a")
		sconn, ac := wrap(cl, sv)
		var wg vrt.WaitGroup
		wg.Add(2)
		vrt.GoNamed("S", "S", func() {
			defer wg.Done()
			ctx, cancel := vrt.WithTimeout(context.Background(), 10*time.Second)
			defer cancel()
			o.sErr = app.VerifAuthenticate(ctx, sconn, code, app.VerifRoleSender)
			o.sRan = true
		})
		vrt.GoNamed("attacker", "A", func() {
			defer wg.Done()
			st, err := ac.AcceptStream(context.Background())
			if err != nil {
				return
			}
			got := make([]byte, app.VerifAuthMsgSize)
			io.ReadFull(st, got)
			live := knowledge{"victim-message": got}
			live["forged-receiver-othercode"], _ = app.VerifBuildAuthMessage(ac, otherCode, app.VerifRoleReceive, nonce)
			live["forged-sender-othercode"], _ = app.VerifBuildAuthMessage(ac, otherCode, app.VerifRoleSender, nonce)
			live["forged-receiver-emptycode"], _ = app.VerifBuildAuthMessage(ac, "", app.VerifRoleReceive, nonce)
			if b := pick(sc.M1, live); b != nil {
				st.Write(b)
			}
			if b := pick(sc.M2, live); b != nil {
				st.Write(b)
			}
			vrt.Sleep(12 * time.Second)
			st.Close()
			ac.Close()
		})
		wg.Wait()
	case "relay":
		// S <-> A over session 1, A <-> R over session 2; both victims hold the same code
		c1, s1 := quic.NewPair("s1")
		c2, s2 := quic.NewPair("s2")
		sconn, a1 := wrap(c1, s1)
		a2, rconn := wrap(c2, s2)
		var wg vrt.WaitGroup
		wg.Add(3)
		vrt.GoNamed("S", "S", func() {
			defer wg.Done()
			ctx, cancel := vrt.WithTimeout(context.Background(), 10*time.Second)
			defer cancel()
			o.sErr = app.VerifAuthenticate(ctx, sconn, code, app.VerifRoleSender)
			o.sRan = true
		})
		vrt.GoNamed("R", "R", func() {
			defer wg.Done()
			ctx, cancel := vrt.WithTimeout(context.Background(), 10*time.Second)
			defer cancel()
			o.rErr = app.VerifAuthenticate(ctx, rconn, code, app.VerifRoleReceive)
			o.rRan = true
		})
		vrt.GoNamed("attacker", "A", func() {
			defer wg.Done()
			fromS, err := a1.AcceptStream(context.Background())
			if err != nil {
				return
			}
			toR, err := a2.OpenStream(context.Background())
			if err != nil {
				return
			}
			got := make([]byte, app.VerifAuthMsgSize)
			io.ReadFull(fromS, got)
			live := knowledge{"sender-message": got}
			if b := pick(sc.M1, live); b != nil {
				toR.Write(b)
			}
			// the receiver's answer, if any, within 2 s
			ans := make([]byte, app.VerifAuthMsgSize)
			gotAns := false
			vrt.GoNamed("attacker-read", "A", func() {
				if _, err := io.ReadFull(toR, ans); err == nil {
					gotAns = true
				}
			})
			vrt.Sleep(2 * time.Second)
			if gotAns {
				live["receiver-message"] = ans
			}
			if b := pick(sc.M2, live); b != nil {
				fromS.Write(b)
			}
			vrt.Sleep(12 * time.Second)
			fromS.Close()
			toR.Close()
			a1.Close()
			a2.Close()
		})
		wg.Wait()
	}
}

func check(sc Scenario, x *vrt.Exec) {
	rp := map[string]any{"scenario": sc}
	if x.Outcome != "ok" {
		res.Violate("hang", "c08/auth", map[string]any{"position": sc.Position, "outcome": x.Outcome}, fmt.Sprintf("%s: %s %s", sc, x.Outcome, x.Detail), rp)
		return
	}
	o := lastOut
	if o.sRan && o.sErr == nil {
		res.Violate("accepted", "c08/auth", map[string]any{"position": sc.Position, "victim": "sender", "m": sc.M2.Base + sc.M1.Base, "mut": mutClass(sc)},
			fmt.Sprintf("%s: the honest sender accepted although its peer on this connection is not the honest holder of the code", sc), rp)
	}
	if o.rRan && o.rErr == nil {
		res.Violate("accepted", "c08/auth", map[string]any{"position": sc.Position, "victim": "receiver", "m": sc.M1.Base, "mut": mutClass(sc)},
			fmt.Sprintf("%s: the honest receiver accepted although its peer on this connection is not the honest holder of the code", sc), rp)
	}
}

func mutClass(sc Scenario) string {
	c := func(m string) string {
		if i := strings.Index(m, ":"); i > 0 {
			return m[:i]
		}
		return m
	}
	return c(sc.M1.Mut) + "/" + c(sc.M2.Mut)
}

// muts0: every single-bit flip and every truncation of a 50-byte message.
func muts0() []string {
	var out []string
	for b := 0; b < 400; b++ {
		out = append(out, fmt.Sprintf("flip:%d", b))
	}
	for l := 0; l < 50; l++ {
		out = append(out, fmt.Sprintf("trunc:%d", l))
	}
	return out
}

func mutations() []string {
	muts := []string{""}
	for b := 0; b < app.VerifAuthMsgSize*8; b++ {
		muts = append(muts, fmt.Sprintf("flip:%d", b))
	}
	for l := 0; l < app.VerifAuthMsgSize; l++ {
		muts = append(muts, fmt.Sprintf("trunc:%d", l))
	}
	muts = append(muts, "role:0", "role:1", "role:2", "role:3", "role:255")
	return muts
}

func cfg() vrt.Config {
	c := vrt.DefaultConfig()
	c.LockPoints = false
	return c
}

func main() {
	res = vlib.Parse()
	res.Part = "auth"
	res.Rule = "honest pairs over all pairs of two join codes; attacker as rogue dialer, rogue listener and relay between two TLS sessions, choosing for each expected message from its knowledge (messages of two earlier honest runs, the victim's own message in this run, messages computed with the real code for another or the empty join code on its own session secret, nothing) under every single-bit flip, truncation and role-byte rewrite; pairs of attacker moves without mutation; extra-connection dial/accept against honest and rogue peers; non-trivial = every scenario; distinct by scenario"
	if vlib.F.Replay != "" {
		var art struct {
			Violation struct {
				Replay struct {
					Scenario Scenario `json:"scenario"`
					Tamper   string   `json:"tamper"`
					Mut      string   `json:"mut"`
					Honest   bool     `json:"honest"`
					CodeS    string   `json:"code_s"`
					CodeR    string   `json:"code_r"`
					Extra    string   `json:"extra"`
				} `json:"replay"`
			} `json:"violation"`
		}
		if err := vlib.ReadJSON(vlib.F.Replay, &art); err != nil {
			res.InfraError("%v", err)
			res.Finish()
		}
		if art.Violation.Replay.Honest {
			checkHonest(art.Violation.Replay.CodeS, art.Violation.Replay.CodeR)
			res.Finish()
		}
		if art.Violation.Replay.Extra != "" {
			checkExtra(art.Violation.Replay.Extra)
			res.Finish()
		}
		if art.Violation.Replay.Tamper != "" {
			checkTamper(art.Violation.Replay.Tamper, art.Violation.Replay.Mut)
			res.Finish()
		}
		sc := art.Violation.Replay.Scenario
		x := vrt.Run(cfg(), nil, func() { runScenario(sc) })
		res.Eval()
		check(sc, x)
		res.Finish()
	}
	var states, trans int64
	n := 0
	// (1) honest pairs: accept iff same code (same session by construction)
	// join codes: two unrelated ones, the empty one, and near misses of the first (letter case,
	// surrounding white space, a look-alike character) - "the same join code" means the same string
	codes := []string{code, otherCode, "", strings.ToLower(code), " " + code, code + " ", code + "\n", "\t" + code, strings.Replace(code, "-", "_", 1), code + code}
	for _, cs := range codes {
		for _, cr := range codes {
			n++
			if !vlib.Mine(n) {
				continue
			}
			trans++
			res.Nontrivial(fmt.Sprintf("honest|%s|%s", cs, cr))
			if n <= 3 || n%37 == 0 {
				res.Sample(map[string]any{"honest_pair": []string{cs, cr}})
			}
			checkHonest(cs, cr)
		}
	}
	// (1b) an honest session whose authentication messages are altered in flight: every single-bit
	// flip and every truncation of either message must make the side that reads it reject
	for _, dir := range []string{"sender-to-receiver", "receiver-to-sender"} {
		for _, m := range muts0() {
			n++
			if !vlib.Mine(n) {
				continue
			}
			trans++
			states++
			res.Nontrivial("tamper|" + dir + "|" + m)
			checkTamper(dir, m)
		}
	}
	// (2) attacker scenarios
	var scs []Scenario
	muts := mutations()
	dialerBases := []string{"prior1-sender", "prior1-receiver", "prior2-sender", "forged-sender-othercode", "forged-receiver-othercode", "forged-sender-emptycode", "nothing"}
	for _, b := range dialerBases {
		for _, m := range muts {
			if b == "nothing" && m != "" {
				continue
			}
			scs = append(scs, Scenario{Position: "rogue-dialer", M1: Move{b, m}, M2: Move{"nothing", ""}})
		}
		for _, b2 := range dialerBases {
			scs = append(scs, Scenario{Position: "rogue-dialer", M1: Move{b, ""}, M2: Move{b2, ""}})
		}
	}
	listenerBases := []string{"victim-message", "prior1-receiver", "prior1-sender", "prior2-receiver", "forged-receiver-othercode", "forged-sender-othercode", "forged-receiver-emptycode", "nothing"}
	for _, b := range listenerBases {
		for _, m := range muts {
			if b == "nothing" && m != "" {
				continue
			}
			scs = append(scs, Scenario{Position: "rogue-listener", M1: Move{b, m}, M2: Move{"nothing", ""}})
		}
		for _, b2 := range listenerBases {
			scs = append(scs, Scenario{Position: "rogue-listener", M1: Move{b, ""}, M2: Move{b2, ""}})
		}
	}
	relayFwd := []string{"sender-message", "prior1-sender", "prior2-sender", "nothing"}
	relayBack := []string{"receiver-message", "sender-message", "prior1-receiver", "prior2-receiver", "nothing"}
	for _, b := range relayFwd {
		for _, m := range muts {
			if b == "nothing" && m != "" {
				continue
			}
			scs = append(scs, Scenario{Position: "relay", M1: Move{b, m}, M2: Move{"receiver-message", ""}})
		}
		for _, b2 := range relayBack {
			for _, m2 := range []string{"", "role:1", "role:2", "flip:0", "flip:16", "flip:399", "trunc:49"} {
				scs = append(scs, Scenario{Position: "relay", M1: Move{b, ""}, M2: Move{b2, m2}})
			}
		}
	}
	for _, sc := range scs {
		n++
		if !vlib.Mine(n) {
			continue
		}
		sc := sc
		x := vrt.Run(cfg(), nil, func() { runScenario(sc) })
		trans++
		states++
		res.Eval()
		res.Nontrivial(sc.String())
		check(sc, x)
		if states%400 == 1 {
			res.Sample(sc.String())
		}
	}
	// (3) extra connections: the real dialExtraConns / acceptExtraConns
	for _, ex := range []string{"honest", "wrong-code", "rogue-listener-reflect", "rogue-dialer-replay", "rogue-listener-silent"} {
		n++
		if !vlib.Mine(n) {
			continue
		}
		trans++
		res.Nontrivial("extra|" + ex)
		checkExtra(ex)
	}
	res.States = states + 9
	res.Trans = trans
	res.Validated = trans
	res.Finish()
}

// checkExtra runs the real dialExtraConns / acceptExtraConns against one kind of peer.
func checkExtra(ex string) {
	rp := map[string]any{"extra": ex}
	var dialed, accepted int
	var bl *byteLog
	x := vrt.Run(cfg(), nil, func() { dialed, accepted, bl = runExtra(ex) })
	res.Eval()
	if x.Outcome != "ok" {
		res.Violate("hang", "c08/auth", map[string]any{"position": "extra:" + ex, "outcome": x.Outcome}, fmt.Sprintf("extra connections %s: %s %s", ex, x.Outcome, x.Detail), rp)
		return
	}
	if ex == "honest" && (dialed != 1 || accepted != 1) {
		res.Violate("rejected", "c08/auth", map[string]any{"position": "extra:honest"}, fmt.Sprintf("honest extra connection: dialed=%d accepted=%d", dialed, accepted), rp)
	}
	if ex != "honest" && (dialed != 0 || accepted != 0) {
		res.Violate("accepted", "c08/auth", map[string]any{"position": "extra:" + ex}, fmt.Sprintf("extra connection %s: dialed=%d accepted=%d connections handed to the transfer", ex, dialed, accepted), rp)
	}
	// no byte other than the 50-byte auth message on the auth stream before success
	for k, d := range bl.data {
		if !strings.HasSuffix(k, ":0") || len(d) > app.VerifAuthMsgSize {
			if ex != "honest" {
				res.Violate("data-before-auth", "c08/auth", map[string]any{"position": "extra:" + ex}, fmt.Sprintf("extra connection %s: %d bytes written on %s although authentication did not succeed", ex, len(d), k), rp)
			}
		}
	}
}

func runExtra(kind string) (dialed, accepted int, bl *byteLog) {
	bl = &byteLog{}
	addr := "127.0.0.1:50123"
	l := quic.RegisterListener(addr)
	quic.DefaultObs = bl
	defer func() { quic.DefaultObs = nil }()
	ua, _ := net.ResolveUDPAddr("udp", addr)
	var wg vrt.WaitGroup
	switch kind {
	case "honest", "wrong-code":
		rc := code
		if kind == "wrong-code" {
			rc = otherCode
		}
		wg.Add(2)
		vrt.GoNamed("S", "S", func() {
			defer wg.Done()
			ctx, cancel := vrt.WithTimeout(context.Background(), 15*time.Second)
			defer cancel()
			dialed, _ = app.VerifDialExtra(ctx, code, ua, 1)
		})
		vrt.GoNamed("R", "R", func() {
			defer wg.Done()
			ctx, cancel := vrt.WithTimeout(context.Background(), 15*time.Second)
			defer cancel()
			accepted, _ = app.VerifAcceptExtra(ctx, rc, transferquic.NewListener(l, logger), 1)
		})
	case "rogue-listener-reflect", "rogue-listener-silent":
		wg.Add(2)
		vrt.GoNamed("S", "S", func() {
			defer wg.Done()
			ctx, cancel := vrt.WithTimeout(context.Background(), 15*time.Second)
			defer cancel()
			dialed, _ = app.VerifDialExtra(ctx, code, ua, 1)
		})
		vrt.GoNamed("attacker", "A", func() {
			defer wg.Done()
			c, err := l.Accept(context.Background())
			if err != nil {
				return
			}
			st, err := c.AcceptStream(context.Background())
			if err != nil {
				return
			}
			got := make([]byte, app.VerifAuthMsgSize)
			io.ReadFull(st, got)
			if kind == "rogue-listener-reflect" {
				st.Write(got)
			}
			vrt.Sleep(12 * time.Second)
			c.CloseWithError(0, "")
		})
	case "rogue-dialer-replay":
		h := honest(code, code)
		wg.Add(2)
		vrt.GoNamed("R", "R", func() {
			defer wg.Done()
			ctx, cancel := vrt.WithTimeout(context.Background(), 15*time.Second)
			defer cancel()
			accepted, _ = app.VerifAcceptExtra(ctx, code, transferquic.NewListener(l, logger), 1)
		})
		vrt.GoNamed("attacker", "A", func() {
			defer wg.Done()
			tr := &quic.Transport{}
			c, err := tr.Dial(context.Background(), ua, nil, nil)
			if err != nil {
				return
			}
			st, _ := c.OpenStreamSync(context.Background())
			st.Write(h.sMsg)
			vrt.Sleep(12 * time.Second)
			c.CloseWithError(0, "")
		})
	}
	wg.Wait()
	return
}
