//go:build verif

package transfer

// Exports for the transfer harness (overlay only).

func VerifReadControlMessage(s Stream) (byte, any, error) { return readControlMessage(s) }

const (
	VerifTypeFileDone       = controlTypeFileDone
	VerifTypeFileResumeInfo = controlTypeFileResumeInfo
)

// VerifBitmap returns a copy of the sidecar's bitmap bytes.
func (s *Sidecar) VerifBitmap() []byte { return s.MarshalBitmap() }
