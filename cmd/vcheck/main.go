// vcheck: driver of the verification machinery.
//
//	vcheck <ID> --tier quick|thorough     run the check of one property
//	vcheck replay <artefact.json>         re-run exactly one recorded violation
//	vcheck setup                          build everything once and warm the build cache
//	vcheck list                           list checks
package main

import (
	"crypto/sha256"
	"encoding/hex"
	"encoding/json"
	"flag"
	"fmt"
	"os"
	"path/filepath"
	"sort"
	"strconv"
	"strings"
	"time"
)

const verifDir = "/verif"

// repoDir is the tree that is checked; outDir receives evidence and violation artefacts. Both
// can be redirected (VERIF_REPO_DIR, VERIF_OUT_DIR) so that a seeded change can be checked on a
// scratch copy without touching /repo or /verif/evidence; the registered commands never set them.
var (
	repoDir = envOr("VERIF_REPO_DIR", "/repo")
	outDir  = envOr("VERIF_OUT_DIR", verifDir)
)

func main() {
	if len(os.Args) < 2 {
		fmt.Fprintln(os.Stderr, "usage: vcheck <ID>|replay|setup|list ...")
		os.Exit(2)
	}
	switch os.Args[1] {
	case "setup":
		os.Exit(cmdSetup())
	case "list":
		ids := make([]string, 0, len(checks))
		for id := range checks {
			ids = append(ids, id)
		}
		sort.Strings(ids)
		for _, id := range ids {
			fmt.Println(id, checks[id].Level, len(checks[id].Parts), "parts")
		}
	case "replay":
		if len(os.Args) < 3 {
			fmt.Fprintln(os.Stderr, "usage: vcheck replay <path>")
			os.Exit(2)
		}
		os.Exit(cmdReplay(os.Args[2]))
	case "selftest":
		os.Exit(cmdSelftest(os.Args[2:]))
	default:
		id := os.Args[1]
		fs := flag.NewFlagSet("vcheck", flag.ExitOnError)
		tier := fs.String("tier", envOr("VERIF_TIER", "quick"), "quick|thorough")
		only := fs.String("part", "", "run only this part (debugging)")
		keep := fs.Bool("keep", false, "keep work dir")
		fs.Parse(os.Args[2:])
		spec, ok := checks[id]
		if !ok {
			fmt.Fprintln(os.Stderr, "unknown check", id)
			os.Exit(2)
		}
		os.Exit(runCheck(id, spec, *tier, *only, *keep))
	}
}

func envOr(k, d string) string {
	if v := os.Getenv(k); v != "" {
		return v
	}
	return d
}

func seed() int64 {
	s, _ := strconv.ParseInt(os.Getenv("VERIF_SEED"), 10, 64)
	return s
}

type Finding struct {
	Property  string         `json:"property"`
	Status    string         `json:"status"` // known | fixed
	Check     string         `json:"check"`
	Kind      string         `json:"kind"`
	Signature map[string]any `json:"signature"`
	What      string         `json:"what"`
	Commit    string         `json:"commit,omitempty"`
}

func loadFindings() []Finding {
	var fs []Finding
	b, err := os.ReadFile(filepath.Join(verifDir, "known_findings.json"))
	if err != nil {
		return nil
	}
	if err := json.Unmarshal(b, &fs); err != nil {
		fmt.Fprintln(os.Stderr, "vcheck: known_findings.json:", err)
		os.Exit(2)
	}
	return fs
}

func sigKey(kind, check string, sig map[string]any) string {
	b, _ := json.Marshal(sig)
	return kind + "|" + check + "|" + string(b)
}

func runCheck(id string, spec *CheckSpec, tier, only string, keep bool) int {
	t0 := time.Now()
	w, err := newWork()
	if err != nil {
		fmt.Fprintln(os.Stderr, "vcheck:", err)
		return 2
	}
	if !keep {
		defer w.cleanup()
	} else {
		fmt.Fprintln(os.Stderr, "work dir:", w.dir)
	}
	var all []*Result
	infra := false
	for _, p := range spec.Parts {
		if only != "" && p.Name != only {
			continue
		}
		if p.Tiers != "" && !strings.Contains(p.Tiers, tier) {
			continue
		}
		rs, err := w.runPart(id, p, tier, "")
		if err != nil {
			fmt.Fprintf(os.Stderr, "vcheck: part %s: %v\n", p.Name, err)
			infra = true
			continue
		}
		all = append(all, rs...)
	}
	if infra || len(all) == 0 {
		fmt.Fprintln(os.Stderr, "vcheck: infrastructure error; no verdict")
		return 2
	}
	return conclude(id, spec, tier, all, time.Since(t0))
}

// conclude merges results, applies known findings, writes evidence + artefacts.
func conclude(id string, spec *CheckSpec, tier string, all []*Result, wall time.Duration) int {
	findings := loadFindings()
	known := map[string]Finding{}
	for _, f := range findings {
		if f.Property == id && f.Status == "known" {
			known[sigKey(f.Kind, f.Check, f.Signature)] = f
		}
	}
	cov := map[string]any{}
	var evals, distinct, states, trans, validated int64
	exhaustive := true
	var samples []any
	rules := []string{}
	parts := map[string]any{}
	type pv struct {
		part string
		v    *Violation
	}
	merged := map[string]*pv{}
	var order []string
	for _, r := range all {
		evals += r.Evals
		distinct += r.Distinct
		states += r.States
		trans += r.Trans
		validated += r.Validated
		if !r.Exhaustive {
			exhaustive = false
		}
		if len(samples) < 12 {
			for _, s := range r.Samples {
				if len(samples) < 12 {
					samples = append(samples, map[string]any{"part": r.Part, "case": s})
				}
			}
		}
		pk, _ := parts[r.Part].(map[string]any)
		if pk == nil {
			pk = map[string]any{"evaluations": int64(0), "distinct_nontrivial": int64(0), "states": int64(0), "transitions": int64(0), "shards": 0, "exhaustive": true, "rule": r.Rule}
			parts[r.Part] = pk
			if r.Rule != "" {
				rules = append(rules, r.Part+": "+r.Rule)
			}
		}
		pk["evaluations"] = pk["evaluations"].(int64) + r.Evals
		pk["distinct_nontrivial"] = pk["distinct_nontrivial"].(int64) + r.Distinct
		pk["states"] = pk["states"].(int64) + r.States
		pk["transitions"] = pk["transitions"].(int64) + r.Trans
		pk["shards"] = pk["shards"].(int) + 1
		if !r.Exhaustive {
			pk["exhaustive"] = false
		}
		for k, v := range r.Extra {
			mergeExtra(pk, k, v)
		}
		for _, v := range r.Violations {
			k := sigKey(v.Kind, v.Check, v.Signature)
			if m, ok := merged[k]; ok {
				m.v.Count += v.Count
			} else {
				merged[k] = &pv{part: r.Part, v: v}
				order = append(order, k)
			}
		}
	}
	sort.Strings(order)
	nviol := 0
	nknown := 0
	var lines []string
	seenKnown := map[string]bool{}
	for _, k := range order {
		m := merged[k]
		if f, ok := known[k]; ok {
			nknown++
			seenKnown[k] = true
			lines = append(lines, fmt.Sprintf("KNOWN-FINDING: property=%s %s", id, oneLine(f.What)))
			continue
		}
		nviol++
		path := writeArtefact(id, m.part, m.v)
		lines = append(lines, fmt.Sprintf("VIOLATION property=%s replay=%s", id, path))
		fmt.Fprintf(os.Stderr, "violation[%s/%s] kind=%s sig=%s\n  %s\n", id, m.part, m.v.Kind, mustJSON(m.v.Signature), m.v.What)
	}
	cov["evaluations"] = evals
	cov["distinct_nontrivial"] = distinct
	cov["rule"] = strings.Join(rules, " || ")
	if samples == nil {
		samples = []any{}
	}
	cov["samples"] = samples
	cov["exhaustive"] = exhaustive
	cov["parts"] = parts
	cov["known_findings_reproduced"] = nknown
	if id != "CONF" {
		if mc := conformanceSummary(); mc != nil {
			cov["model_conformance"] = mc
		}
	}
	if spec.Level == "model_checking" {
		cov["states"] = states
		cov["transitions"] = trans
		cov["traces_validated_against_impl"] = validated
	}
	ev := map[string]any{
		"property_id": id,
		"tier":        tier,
		"seed":        seed(),
		"level":       spec.Level,
		"coverage":    cov,
		"assumptions": spec.Assumptions,
		"wall_s":      wall.Seconds(),
		"violations":  nviol,
	}
	os.MkdirAll(filepath.Join(outDir, "evidence"), 0755)
	b, _ := json.MarshalIndent(ev, "", " ")
	if err := os.WriteFile(filepath.Join(outDir, "evidence", id+".json"), append(b, '\n'), 0644); err != nil {
		fmt.Fprintln(os.Stderr, "vcheck: evidence:", err)
		return 2
	}
	for _, l := range lines {
		fmt.Println(l)
	}
	fmt.Printf("%s tier=%s evaluations=%d distinct=%d states=%d transitions=%d exhaustive=%v known=%d violations=%d wall=%.1fs\n",
		id, tier, evals, distinct, states, trans, exhaustive, nknown, nviol, wall.Seconds())
	if nviol > 0 {
		return 1
	}
	return 0
}

// conformanceSummary reports what the last run of the conformance suites (vcheck CONF) found:
// how many programs / scenarios bind the runtime and environment models to native Go, real
// quic-go and real gorilla/websocket, and how many mismatches there were.
func conformanceSummary() map[string]any {
	b, err := os.ReadFile(filepath.Join(verifDir, "evidence", "CONF.json"))
	if err != nil {
		return nil
	}
	var ev struct {
		Violations int `json:"violations"`
		Coverage   struct {
			Parts map[string]map[string]any `json:"parts"`
		} `json:"coverage"`
	}
	if json.Unmarshal(b, &ev) != nil {
		return nil
	}
	out := map[string]any{"evidence": "/verif/evidence/CONF.json", "mismatches": ev.Violations}
	for name, key := range map[string]string{"go-model": "programs", "quic-model": "scenarios", "ws-model": "scenarios"} {
		if p, ok := ev.Coverage.Parts[name]; ok {
			var m map[string]any
			if s, _ := p[key].(string); s != "" && json.Unmarshal([]byte(s), &m) == nil {
				out[strings.TrimSuffix(name, "-model")+"_cases"] = len(m)
			}
			out[strings.TrimSuffix(name, "-model")+"_model_executions"] = p["transitions"]
		}
	}
	return out
}

func mergeExtra(pk map[string]any, k string, v any) {
	old, ok := pk[k]
	if !ok {
		pk[k] = v
		return
	}
	switch a := old.(type) {
	case string:
		if b, ok := v.(string); ok && b != a && !strings.Contains(a, b) {
			pk[k] = a + " | " + b
		}
	case float64:
		if b, ok := v.(float64); ok {
			pk[k] = a + b
		}
	case map[string]any:
		if b, ok := v.(map[string]any); ok {
			for kk, vv := range b {
				mergeExtra(a, kk, vv)
			}
		}
	}
}

func oneLine(s string) string { return strings.Join(strings.Fields(s), " ") }

func mustJSON(v any) string { b, _ := json.Marshal(v); return string(b) }

func writeArtefact(id, part string, v *Violation) string {
	dir := filepath.Join(outDir, "violations", id)
	os.MkdirAll(dir, 0755)
	h := sha256.Sum256([]byte(sigKey(v.Kind, v.Check, v.Signature)))
	path := filepath.Join(dir, hex.EncodeToString(h[:6])+".json")
	art := map[string]any{"property": id, "part": part, "violation": v}
	b, _ := json.MarshalIndent(art, "", " ")
	os.WriteFile(path, append(b, '\n'), 0644)
	return path
}

func cmdReplay(path string) int {
	if ap, err := filepath.Abs(path); err == nil {
		path = ap
	}
	b, err := os.ReadFile(path)
	if err != nil {
		fmt.Fprintln(os.Stderr, err)
		return 2
	}
	var art struct {
		Property  string     `json:"property"`
		Part      string     `json:"part"`
		Violation *Violation `json:"violation"`
	}
	if err := json.Unmarshal(b, &art); err != nil {
		fmt.Fprintln(os.Stderr, err)
		return 2
	}
	spec, ok := checks[art.Property]
	if !ok {
		fmt.Fprintln(os.Stderr, "unknown property", art.Property)
		return 2
	}
	w, err := newWork()
	if err != nil {
		fmt.Fprintln(os.Stderr, err)
		return 2
	}
	defer w.cleanup()
	for _, p := range spec.Parts {
		if p.Name != art.Part {
			continue
		}
		rs, err := w.runPart(art.Property, p, "quick", path)
		if err != nil {
			fmt.Fprintln(os.Stderr, "replay:", err)
			return 2
		}
		want := sigKey(art.Violation.Kind, art.Violation.Check, art.Violation.Signature)
		for _, r := range rs {
			for _, v := range r.Violations {
				if sigKey(v.Kind, v.Check, v.Signature) == want {
					fmt.Printf("REPRODUCED property=%s kind=%s\n  %s\n", art.Property, v.Kind, v.What)
					return 1
				}
			}
		}
		fmt.Println("NOT REPRODUCED")
		return 0
	}
	fmt.Fprintln(os.Stderr, "part not found:", art.Part)
	return 2
}

func cmdSetup() int {
	w, err := newWork()
	if err != nil {
		fmt.Fprintln(os.Stderr, err)
		return 2
	}
	defer w.cleanup()
	// Build every harness once so that the Go build cache is warm.
	seen := map[string]bool{}
	rc := 0
	for _, id := range sortedIDs() {
		for _, p := range checks[id].Parts {
			k := fmt.Sprint(p.Harness, p.Instrument, p.FsPoints, len(p.Probes))
			if seen[k] {
				continue
			}
			seen[k] = true
			if _, err := w.build(p); err != nil {
				fmt.Fprintf(os.Stderr, "setup: build %s: %v\n", p.Harness, err)
				rc = 2
			}
		}
	}
	return rc
}

func sortedIDs() []string {
	ids := make([]string, 0, len(checks))
	for id := range checks {
		ids = append(ids, id)
	}
	sort.Strings(ids)
	return ids
}
