package main

import (
	"bytes"
	"encoding/json"
	"fmt"
	"io/fs"
	"os"
	"os/exec"
	"path/filepath"
	"runtime"
	"strings"
	"sync"
	"time"

	"verif/engine/instr"
)

type Violation struct {
	Kind      string         `json:"kind"`
	Check     string         `json:"check"`
	Signature map[string]any `json:"signature"`
	What      string         `json:"what"`
	Replay    any            `json:"replay,omitempty"`
	Count     int            `json:"count"`
}

type Result struct {
	Part       string         `json:"part"`
	Shard      int            `json:"shard"`
	Evals      int64          `json:"evaluations"`
	Distinct   int64          `json:"distinct_nontrivial"`
	States     int64          `json:"states"`
	Trans      int64          `json:"transitions"`
	Validated  int64          `json:"traces_validated_against_impl"`
	Rule       string         `json:"rule"`
	Samples    []any          `json:"samples"`
	Exhaustive bool           `json:"exhaustive"`
	Extra      map[string]any `json:"extra"`
	Violations []*Violation   `json:"violations"`
	Infra      []string       `json:"infra_errors"`
	WallS      float64        `json:"wall_s"`
}

type work struct {
	dir    string
	goBin  string
	goEnv  []string
	mu     sync.Mutex
	built  map[string]string
	buildM map[string]*sync.Mutex
}

func newWork() (*work, error) {
	base := "/dev/shm"
	if st, err := os.Stat(base); err != nil || !st.IsDir() {
		base = os.TempDir()
	}
	d, err := os.MkdirTemp(base, "vcheck-")
	if err != nil {
		return nil, err
	}
	w := &work{dir: d, built: map[string]string{}, buildM: map[string]*sync.Mutex{}}
	w.goBin, w.goEnv = pickGo()
	return w, nil
}

func (w *work) cleanup() { os.RemoveAll(w.dir) }

// pickGo chooses a go command able to build the repository offline.
func pickGo() (string, []string) {
	env := []string{}
	for _, e := range os.Environ() {
		if strings.HasPrefix(e, "GOFLAGS=") || strings.HasPrefix(e, "GOPROXY=") || strings.HasPrefix(e, "GOSUMDB=") ||
			strings.HasPrefix(e, "GOTOOLCHAIN=") || strings.HasPrefix(e, "GONOSUMDB=") || strings.HasPrefix(e, "GONOSUMCHECK=") || strings.HasPrefix(e, "GOFLAGS=") {
			continue
		}
		env = append(env, e)
	}
	env = append(env, "GOFLAGS=-mod=mod", "GOPROXY=off")
	try := func(bin string, extra ...string) bool {
		c := exec.Command(bin, "list", "-f", "{{.Dir}}", "./pkg/manifest")
		c.Dir = repoDir
		c.Env = append(append([]string{}, env...), extra...)
		return c.Run() == nil
	}
	if try("go") {
		return "go", env
	}
	for _, b := range []string{"go1.26", "go1.26.8"} {
		if try(b, "GOTOOLCHAIN=local") {
			return b, append(env, "GOTOOLCHAIN=local")
		}
	}
	return "go", env
}

// overlayFor assembles the overlay (virtual packages + export files) of one harness.
func (w *work) overlayFor(harness string) (map[string]string, error) {
	ov := map[string]string{}
	add := func(srcRoot, dstRoot string) error {
		return filepath.WalkDir(srcRoot, func(p string, d fs.DirEntry, err error) error {
			if err != nil {
				return err
			}
			if d.IsDir() || !(strings.HasSuffix(p, ".go") || strings.HasSuffix(p, ".s")) {
				return nil
			}
			rel, _ := filepath.Rel(srcRoot, p)
			ov[filepath.Join(dstRoot, rel)] = p
			return nil
		})
	}
	if err := add(filepath.Join(verifDir, "engine", "vlib"), filepath.Join(repoDir, "internal", "verif", "vlib")); err != nil {
		return nil, err
	}
	for _, e := range []string{"vrt", "venv"} {
		src := filepath.Join(verifDir, "engine", e)
		if _, err := os.Stat(src); err == nil {
			if err := add(src, filepath.Join(repoDir, "internal", "verif", e)); err != nil {
				return nil, err
			}
		}
	}
	for _, h := range []string{"_common", harness} {
		src := filepath.Join(verifDir, "harness", h, "repo")
		if _, err := os.Stat(src); err == nil {
			if err := add(src, repoDir); err != nil {
				return nil, err
			}
		}
	}
	return ov, nil
}

func (w *work) build(p *PartSpec) (string, error) {
	key := fmt.Sprint(p.Harness, "|", p.Instrument, "|", p.FsPoints, "|", len(p.Probes))
	w.mu.Lock()
	if b, ok := w.built[key]; ok {
		w.mu.Unlock()
		return b, nil
	}
	m := w.buildM[key]
	if m == nil {
		m = &sync.Mutex{}
		w.buildM[key] = m
	}
	w.mu.Unlock()
	m.Lock()
	defer m.Unlock()
	w.mu.Lock()
	if b, ok := w.built[key]; ok {
		w.mu.Unlock()
		return b, nil
	}
	w.mu.Unlock()

	ov, err := w.overlayFor(p.Harness)
	if err != nil {
		return "", err
	}
	hdir := filepath.Join(w.dir, fmt.Sprintf("b-%s-%v-%v-%d", p.Harness, p.Instrument, p.FsPoints, len(p.Probes)))
	os.MkdirAll(hdir, 0755)
	if p.Generate != nil {
		gen, err := p.Generate(w, hdir, ov)
		if err != nil {
			return "", fmt.Errorf("generate: %w", err)
		}
		for k, v := range gen {
			ov[k] = v
		}
	}
	mainPkg := "./cmd/verif_" + p.Harness
	if p.MainPkg != "" {
		mainPkg = p.MainPkg
	}
	modfile := ""
	if len(p.ModRequires) > 0 {
		var err error
		if modfile, err = w.makeModfile(hdir, p.ModRequires); err != nil {
			return "", err
		}
	}
	if p.Instrument {
		cfg := instr.Config{
			RepoDir: repoDir, OutDir: filepath.Join(hdir, "instr"), Overlay: ov, Env: w.goEnv,
			Patterns: append([]string{mainPkg}, p.InstrPkgs...), Probes: p.Probes, FsPoints: p.FsPoints, Modfile: modfile, ImportMap: p.ImportMap, RenameMain: p.RenameMain, HTTPSeams: p.HTTPSeams,
		}
		nov, err := instr.Run(cfg)
		if err != nil {
			return "", fmt.Errorf("instrument: %w", err)
		}
		ov = nov
	}
	ovPath := filepath.Join(hdir, "overlay.json")
	b, _ := json.Marshal(map[string]any{"Replace": ov})
	if err := os.WriteFile(ovPath, b, 0644); err != nil {
		return "", err
	}
	bin := filepath.Join(hdir, "harness")
	args := []string{"build", "-overlay", ovPath, "-tags", "verif", "-o", bin}
	if modfile != "" {
		args = append(args, "-modfile="+modfile)
	}
	if p.Race {
		args = append(args, "-race")
	}
	args = append(args, mainPkg)
	c := exec.Command(w.goBin, args...)
	c.Dir = repoDir
	c.Env = w.goEnv
	var out bytes.Buffer
	c.Stdout, c.Stderr = &out, &out
	if err := c.Run(); err != nil {
		return "", fmt.Errorf("go build %s: %v\n%s", mainPkg, err, tail(out.String(), 60))
	}
	w.mu.Lock()
	w.built[key] = bin
	w.mu.Unlock()
	return bin, nil
}

func tail(s string, n int) string {
	ls := strings.Split(s, "\n")
	if len(ls) > n {
		ls = ls[:n]
	}
	return strings.Join(ls, "\n")
}

func (w *work) runPart(id string, p *PartSpec, tier, replay string) ([]*Result, error) {
	bin, err := w.build(p)
	if err != nil {
		return nil, err
	}
	nsh := p.Shards
	if nsh <= 0 {
		nsh = 1
	}
	if nsh > 1 && replay != "" {
		nsh = 1
	}
	par := runtime.NumCPU()
	if p.ProcsPerShard > 1 {
		par = par / p.ProcsPerShard
		if par < 1 {
			par = 1
		}
	}
	sem := make(chan struct{}, par)
	results := make([]*Result, nsh)
	errs := make([]error, nsh)
	var wg sync.WaitGroup
	argstr := p.Args
	if tier == "thorough" && p.ArgsThorough != "" {
		argstr = p.ArgsThorough
	}
	for i := 0; i < nsh; i++ {
		wg.Add(1)
		go func(i int) {
			defer wg.Done()
			sem <- struct{}{}
			defer func() { <-sem }()
			out := filepath.Join(w.dir, fmt.Sprintf("r-%s-%s-%d.json", id, p.Name, i))
			scratch := filepath.Join(w.dir, fmt.Sprintf("s-%s-%s-%d", id, p.Name, i))
			os.MkdirAll(scratch, 0755)
			defer os.RemoveAll(scratch)
			args := []string{"-tier", tier, "-shard", fmt.Sprint(i), "-nshards", fmt.Sprint(nsh), "-out", out,
				"-seed", fmt.Sprint(seed()), "-args", argstr}
			if replay != "" {
				args = append(args, "-replay", replay)
			}
			var c *exec.Cmd
			if p.MemLimitKB > 0 {
				sh := fmt.Sprintf("ulimit -v %d; exec \"$0\" \"$@\"", p.MemLimitKB)
				c = exec.Command("/bin/sh", append([]string{"-c", sh, bin}, args...)...)
			} else {
				c = exec.Command(bin, args...)
			}
			c.Dir = scratch
			c.Env = append(os.Environ(), "VERIF_SCRATCH="+scratch, "VERIF_PART="+p.Name, "VERIF_REPO="+repoDir, "VERIF_WORKDIR="+w.dir)
			if p.GoMaxProcs > 0 {
				c.Env = append(c.Env, fmt.Sprintf("GOMAXPROCS=%d", p.GoMaxProcs))
			}
			var eb bytes.Buffer
			c.Stdout, c.Stderr = &eb, &eb
			to := p.Timeout
			if to == 0 {
				to = 40 * time.Minute
			}
			if err := c.Start(); err != nil {
				errs[i] = err
				return
			}
			done := make(chan error, 1)
			go func() { done <- c.Wait() }()
			select {
			case err := <-done:
				if replay != "" {
					fmt.Fprint(os.Stderr, tail(eb.String(), 400))
				}
				if err != nil {
					errs[i] = fmt.Errorf("shard %d: %v\n%s", i, err, tail(eb.String(), 40))
					return
				}
			case <-time.After(to):
				c.Process.Kill()
				errs[i] = fmt.Errorf("shard %d: harness exceeded its hard timeout %v", i, to)
				return
			}
			b, err := os.ReadFile(out)
			if err != nil {
				errs[i] = fmt.Errorf("shard %d: no result: %v\n%s", i, err, tail(eb.String(), 40))
				return
			}
			r := &Result{}
			if err := json.Unmarshal(b, r); err != nil {
				errs[i] = err
				return
			}
			r.Part = p.Name
			results[i] = r
		}(i)
	}
	wg.Wait()
	for _, e := range errs {
		if e != nil {
			return nil, e
		}
	}
	return results, nil
}

// makeModfile writes an alternative go.mod (+go.sum) for the repository module that also requires
// the given cached modules (e.g. porcupine) so that harness packages may import them; /repo/go.mod
// itself is never touched.
func (w *work) makeModfile(dir string, req []string) (string, error) {
	mod, err := os.ReadFile(filepath.Join(repoDir, "go.mod"))
	if err != nil {
		return "", err
	}
	sum, _ := os.ReadFile(filepath.Join(repoDir, "go.sum"))
	vsum, _ := os.ReadFile(filepath.Join(verifDir, "go.sum"))
	mf := filepath.Join(dir, "go.mod")
	if err := os.WriteFile(mf, mod, 0644); err != nil {
		return "", err
	}
	if err := os.WriteFile(filepath.Join(dir, "go.sum"), append(append(sum, '\n'), vsum...), 0644); err != nil {
		return "", err
	}
	for _, r := range req {
		c := exec.Command(w.goBin, "mod", "edit", "-modfile="+mf, "-require="+r)
		c.Dir = repoDir
		c.Env = w.goEnv
		if out, err := c.CombinedOutput(); err != nil {
			return "", fmt.Errorf("go mod edit: %v %s", err, out)
		}
	}
	return mf, nil
}
