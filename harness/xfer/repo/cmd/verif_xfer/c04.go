//go:build verif

package main

import (
	"bytes"
	"crypto/sha256"
	"encoding/hex"
	"fmt"
	"io"
	"os"
	"path/filepath"
	"sort"
	"strings"
	"time"

	"github.com/sheerbytes/sheerbytes/internal/transfer"
	quic "github.com/sheerbytes/sheerbytes/internal/verif/venv/vquic"
	"github.com/sheerbytes/sheerbytes/internal/verif/vlib"
	vrt "github.com/sheerbytes/sheerbytes/internal/verif/vrt"
)

// ---- C04: resuming after an interruption at any point ends in the identical tree ----
//
// Explicit-state search over crash states of the output directory. A state is the content of the
// output directory (files + metadata directory), hashed. Transitions: run the real pair from the
// state and kill the receiver group at its k-th file-system point (every k, split writes
// included), or cut the connection at a byte position and let the receiver run on to its own
// return. In every reachable state the transition "run to completion" must succeed with an
// identical tree and advertise at least the chunks the metadata on disk marks.

type crashState struct {
	Hash    string   `json:"hash"`
	Dir     string   `json:"-"`
	History []string `json:"history"`
	Depth   int      `json:"depth"`
}

func hashDir(dir string) string {
	var lines []string
	filepath.Walk(dir, func(q string, info os.FileInfo, err error) error {
		if err != nil {
			return nil
		}
		rel, _ := filepath.Rel(dir, q)
		if info.IsDir() {
			lines = append(lines, "D "+rel)
			return nil
		}
		b, _ := os.ReadFile(q)
		h := sha256.Sum256(b)
		lines = append(lines, fmt.Sprintf("F %s %d %x", rel, len(b), h[:8]))
		return nil
	})
	sort.Strings(lines)
	h := sha256.Sum256([]byte(strings.Join(lines, "\n")))
	return hex.EncodeToString(h[:8])
}

type memStream struct{ *bytes.Reader }

func (m memStream) Write(p []byte) (int, error) { return 0, io.ErrClosedPipe }
func (m memStream) Close() error                { return nil }

// advertised decodes the receiver->sender control bytes of a run into FileResumeInfo bitmaps.
func advertised(log []byte) map[string][]byte {
	out := map[string][]byte{}
	s := memStream{bytes.NewReader(log)}
	for {
		typ, msg, err := transfer.VerifReadControlMessage(s)
		if err != nil {
			return out
		}
		if typ == transfer.VerifTypeFileResumeInfo {
			ri := msg.(transfer.FileResumeInfo)
			out[ri.FileID] = append([]byte(nil), ri.Bitmap...)
		}
	}
}

// diskBits: loadable metadata in a state, by file id.
func diskBits(p *Prepared, stateDir string) map[string][]byte {
	out := map[string][]byte{}
	base := filepath.Join(stateDir, p.OutBase)
	dir := filepath.Join(base, ".thruflux_resumedata")
	es, _ := os.ReadDir(dir)
	for _, e := range es {
		if !strings.HasSuffix(e.Name(), ".sbxmap") {
			continue
		}
		sc, err := transfer.LoadSidecar(filepath.Join(dir, e.Name()))
		if err != nil {
			continue
		}
		for _, it := range p.M.Items {
			if !it.IsDir && it.ID == sc.FileID && it.Size == sc.FileSize && sc.ChunkSize == p.Case.Chunk && strings.TrimSuffix(e.Name(), ".sbxmap") == it.ID {
				out[it.ID] = sc.VerifBitmap()
			}
		}
	}
	return out
}

type recObs struct {
	log map[string][]byte
	// cut: abrupt loss / peer close when the sender->receiver byte count reaches Pos
	cutKind string
	cutPos  int64
	total   int64
	fired   bool
}

func (o *recObs) StreamOpened(s *quic.Stream) {}
func (o *recObs) BeforeWrite(s *quic.Stream, p []byte) (int, quic.Fault) {
	k := streamKey(s)
	if o.log == nil {
		o.log = map[string][]byte{}
	}
	if strings.Contains(k, "/s:") {
		o.log[k] = append(o.log[k], p...)
		return len(p), quic.NoFault
	}
	sofar := o.total
	o.total += int64(len(p))
	if o.cutKind != "" && !o.fired && o.cutPos >= sofar && o.cutPos < sofar+int64(len(p)) {
		o.fired = true
		if o.cutKind == "loss" {
			return int(o.cutPos - sofar), quic.FaultAbruptLoss
		}
		return int(o.cutPos - sofar), quic.FaultPeerClose
	}
	return len(p), quic.NoFault
}

type c04Run struct {
	kill     int  // kill the receiver at its k-th fs hook call (0 = never)
	abort    bool // ... after flushing all metadata first, as the application does on SIGINT
	aborting bool
	cutKind  string // or cut the connection
	cutPos   int64
	from     *crashState
	hooks    int
	snapHash string
	snapDir  string
	obs      *recObs
}

var c04cur *c04Run
var c04seq int

func c04Env(p *Prepared, r *c04Run) *Env {
	env := &Env{}
	r.obs = &recObs{cutKind: r.cutKind, cutPos: r.cutPos}
	env.Obs = r.obs
	env.BeforeRun = func(p *Prepared, outDir string) {
		c04cur = r
		r.hooks = 0
		r.aborting = false
		r.snapHash, r.snapDir = "", ""
		r.obs.log, r.obs.total, r.obs.fired = nil, 0, false
		if r.from != nil && r.from.Dir != "" {
			if err := copyTree(r.from.Dir, outDir); err != nil {
				panic(err)
			}
		}
		vrt.FsHook = func(op, path, phase string) error {
			if vrt.CurrentGroup() != "R" || r.aborting {
				return nil
			}
			r.hooks++
			if r.kill > 0 && r.hooks == r.kill && r.abort {
				// SIGINT lands here: the application's handler flushes all resume metadata
				// and exits. It runs as a thread of its own; the interrupted thread stands
				// still meanwhile (if it holds a lock the handler needs, the run deadlocks and
				// is discarded - the signal then simply took effect a little later, which
				// another k covers).
				r.aborting = true
				flushed := false
				vrt.GoNamed("sigint", "R", func() {
					transfer.FlushAllFlushers()
					flushed = true
					c04seq++
					r.snapDir = filepath.Join(scratch, fmt.Sprintf("snap%d", c04seq))
					os.RemoveAll(r.snapDir)
					copyTree(outDir, r.snapDir)
					r.snapHash = hashDir(r.snapDir)
					vrt.Exit(137)
				})
				vrt.Block("interrupted", func() bool { return flushed })
				return nil
			}
			if r.kill > 0 && r.hooks == r.kill {
				// the process dies here: what is on disk now is the crash state
				c04seq++
				r.snapDir = filepath.Join(scratch, fmt.Sprintf("snap%d", c04seq))
				os.RemoveAll(r.snapDir)
				copyTree(outDir, r.snapDir)
				r.snapHash = hashDir(r.snapDir)
				vrt.Exit(137)
			}
			return nil
		}
	}
	return env
}

func c04Cfg() vrt.Config {
	cfg := baseCfg()
	cfg.IdleHorizon = int64(11 * time.Minute)
	return cfg
}

type c04Replay struct {
	History []string `json:"history"`
	// BuiltWithChunk: chunk size of the interrupted runs that built the state, when the run to
	// completion uses another one (0 = the same).
	BuiltWithChunk uint32 `json:"built_with_chunk,omitempty"`
}

// c04BuiltWith is set while the completion runs use another chunk size than the state was built with.
var c04BuiltWith uint32

func modeC04() {
	res.Rule = "breadth-first search over crash states of the output directory: from every state, kill the receiver at each of its file-system points (split writes included), interrupt it there the way SIGINT does (flush all metadata, then exit), and cut the connection at a stride of byte positions; states deduplicated by content hash; in every reachable state the run to completion must succeed, yield the identical tree and advertise at least the chunks the on-disk metadata marks; non-trivial = distinct crash state"
	thorough := vlib.F.Tier == "thorough"
	maxDepth := 2
	if thorough {
		maxDepth = 3
	}
	budget := 170 * time.Second
	if thorough {
		budget = 28 * time.Minute
	}
	deadline := time.Now().Add(budget)
	tree := []Entry{{Path: "a", Size: 12}, {Path: "sub/b", Size: 7}}
	var cases []Case
	for _, s := range []int{1, 2} {
		for _, nr := range []bool{true, false} {
			for _, lat := range []int{0, 200} {
				cases = append(cases, Case{Tree: tree, Chunk: 4, Streams: s, Conns: 1, Resume: true, NoRootDir: nr, LatencyMs: lat})
			}
		}
	}
	st := newStats()
	var nstates, ntrans int64
	cut := false
	for ci, c := range cases {
		if !vlib.Mine(ci) {
			continue
		}
		p, err := prepare(c)
		if err != nil {
			res.InfraError("prepare: %v", err)
			continue
		}
		st.cases++
		stateDir := filepath.Join(scratch, fmt.Sprintf("states%d", ci))
		os.RemoveAll(stateDir)
		os.MkdirAll(stateDir, 0755)
		empty := &crashState{Hash: "empty", Dir: "", Depth: 0}
		seen := map[string]*crashState{"empty": empty}
		queue := []*crashState{empty}
		all := []*crashState{empty}
		// Further roots: states an interrupted multi-stream run can leave when chunks complete out of
		// order (they need more deviations than the interrupted runs below are given), built with the
		// repository's own sidecar API.
		for _, pre := range []string{"partial", "holes", "firstchunk", "complete"} {
			d := filepath.Join(stateDir, "root-"+pre)
			os.MkdirAll(d, 0755)
			pc := *p
			pc.Case.Pre = pre
			applyPre(&pc, d)
			h := hashDir(d)
			if seen[h] != nil {
				os.RemoveAll(d)
				continue
			}
			rs := &crashState{Hash: h, Dir: d, History: []string{"constructed:" + pre}, Depth: 0}
			seen[h] = rs
			all = append(all, rs)
			queue = append(queue, rs)
			res.Nontrivial(fmt.Sprintf("%d|%s", ci, h))
		}
		addState := func(from *crashState, label, hash, dir string) {
			if hash == "" || seen[hash] != nil {
				if dir != "" {
					os.RemoveAll(dir)
				}
				return
			}
			ns := &crashState{Hash: hash, Dir: filepath.Join(stateDir, hash), History: append(append([]string{}, from.History...), label), Depth: from.Depth + 1}
			os.Rename(dir, ns.Dir)
			seen[hash] = ns
			all = append(all, ns)
			queue = append(queue, ns)
			res.Nontrivial(fmt.Sprintf("%d|%s", ci, hash))
		}
		for len(queue) > 0 && !cut {
			s := queue[0]
			queue = queue[1:]
			if s.Depth >= maxDepth {
				continue
			}
			// baseline from s: number of receiver fs hook calls and sender->receiver bytes
			r0 := &c04Run{from: s}
			x0 := vrt.Run(c04Cfg(), nil, func() { runTransfer(p, c04Env(p, r0)) })
			st.execs++
			st.steps += int64(x0.Steps())
			ntrans++
			K, total := r0.hooks, r0.obs.total
			for k := 1; k <= K; k++ {
				if time.Now().After(deadline) {
					cut = true
					break
				}
				r := &c04Run{from: s, kill: k}
				x := vrt.Run(c04Cfg(), nil, func() { runTransfer(p, c04Env(p, r)) })
				st.execs++
				st.steps += int64(x.Steps())
				ntrans++
				if x.Outcome == "exit" && r.snapHash != "" {
					addState(s, fmt.Sprintf("kill-receiver@fs%d", k), r.snapHash, r.snapDir)
				}
				// the same point, interrupted the polite way (SIGINT: flush metadata, then exit)
				if !thorough && s.Depth > 0 {
					continue // SIGINT-style interruptions from root states only in the quick tier
				}
				ra := &c04Run{from: s, kill: k, abort: true}
				xa := vrt.Run(c04Cfg(), nil, func() { runTransfer(p, c04Env(p, ra)) })
				st.execs++
				st.steps += int64(xa.Steps())
				ntrans++
				if xa.Outcome == "exit" && ra.snapHash != "" {
					addState(s, fmt.Sprintf("sigint-receiver@fs%d", k), ra.snapHash, ra.snapDir)
				}
			}
			stride := int64(7)
			if thorough {
				stride = 3
			}
			for _, kind := range []string{"loss", "peerclose"} {
				for pos := int64(0); pos < total; pos += stride {
					if time.Now().After(deadline) {
						cut = true
						break
					}
					r := &c04Run{from: s, cutKind: kind, cutPos: pos}
					x := vrt.Run(c04Cfg(), nil, func() { runTransfer(p, c04Env(p, r)) })
					st.execs++
					st.steps += int64(x.Steps())
					ntrans++
					if x.Outcome != "ok" {
						continue // hangs after faults are C02's business
					}
					c04seq++
					d := filepath.Join(scratch, fmt.Sprintf("snap%d", c04seq))
					os.RemoveAll(d)
					copyTree(last.OutDir, d)
					addState(s, fmt.Sprintf("%s@byte%d", kind, pos), hashDir(d), d)
				}
			}
		}
		// completion from every reachable state
		for _, s := range all {
			if s.Dir == "" {
				continue
			}
			r := &c04Run{from: s}
			bits := diskBits(p, s.Dir)
			bound := 0
			if thorough && s.Depth == 1 {
				bound = 1
			}
			e := &vrt.Explorer{Cfg: c04Cfg(), Bound: bound, Deadline: deadline, Root: func() { runTransfer(p, c04Env(p, r)) }}
			e.Visit = func(x *vrt.Exec) bool {
				checkC04(p, s, bits, r, x, last)
				return true
			}
			e.Run()
			st.add(e)
			ntrans += e.Execs
		}
		// and once more with the sender using another chunk size (flag changed between the runs):
		// metadata written for the old size describes other byte ranges and must not be applied.
		for _, oc := range []uint32{8, 3} {
			p2 := *p
			p2.Case.Chunk = oc
			c04BuiltWith = c.Chunk
			for _, s := range all {
				if s.Dir == "" || time.Now().After(deadline) {
					continue
				}
				r := &c04Run{from: s}
				bits := diskBits(&p2, s.Dir)
				e := &vrt.Explorer{Cfg: c04Cfg(), Bound: 0, Deadline: deadline, Root: func() { runTransfer(&p2, c04Env(&p2, r)) }}
				e.Visit = func(x *vrt.Exec) bool {
					checkC04(&p2, s, bits, r, x, last)
					return true
				}
				e.Run()
				st.add(e)
				ntrans += e.Execs
			}
			c04BuiltWith = 0
		}
		nstates += int64(len(all))
		res.Sample(map[string]any{"case": c.String(), "states": len(all), "example_history": all[len(all)-1].History})
		os.RemoveAll(stateDir)
		os.RemoveAll(p.SrcRoot)
	}
	vrt.FsHook = nil
	st.finish()
	res.States = nstates
	res.Trans = ntrans
	res.Extra["max_chain_depth"] = fmt.Sprint(maxDepth)
	if cut {
		res.NotExhaustive("time budget reached while expanding crash states")
	}
}

func checkC04(p *Prepared, s *crashState, bits map[string][]byte, r *c04Run, x *vrt.Exec, o *Outcome) {
	rp := replayT{Mode: "c04", Case: p.Case, Choices: append([]int{}, x.Choices()...), Extra: vlib.JSON(c04Replay{s.History, c04BuiltWith})}
	hist := strings.Join(s.History, " -> ")
	kinds := map[string]bool{}
	for _, h := range s.History {
		kinds[strings.SplitN(h, "@", 2)[0]] = true
	}
	var ks []string
	for k := range kinds {
		ks = append(ks, k)
	}
	sort.Strings(ks)
	via := strings.Join(ks, "+")
	switch x.Outcome {
	case "ok":
	case "deadlock", "stall":
		sig := hangSig(x)
		sig["via"] = via
		res.Violate("hang", "xfer/c04", sig, fmt.Sprintf("%s: resumed run after [%s] hangs: %v", p.Case, hist, x.Blocked), rp)
		return
	default:
		res.Violate("failure", "xfer/c04", map[string]any{"outcome": x.Outcome, "via": via}, fmt.Sprintf("%s: resumed run after [%s]: %s %s", p.Case, hist, x.Outcome, x.Detail), rp)
		return
	}
	if o.SendErr != nil || o.RecvErr != nil {
		sig := failureSig(o, p.Case)
		sig["via"] = via
		res.Violate("failure", "xfer/c04", sig, fmt.Sprintf("%s: resumed run after [%s] fails: sender %v, receiver %v", p.Case, hist, o.SendErr, o.RecvErr), rp)
		return
	}
	if o.TreeDiff != "" {
		res.Violate("mismatch", "xfer/c04", map[string]any{"class": "tree-differs", "via": via}, fmt.Sprintf("%s: resumed run after [%s] succeeds but the tree differs: %s", p.Case, hist, o.TreeDiff), rp)
	}
	adv := advertised(r.obs.log["conn0/s:0"])
	for id, b := range bits {
		a := adv[id]
		for j := range b {
			var aj byte
			if j < len(a) {
				aj = a[j]
			}
			if b[j]&^aj != 0 {
				res.Violate("mismatch", "xfer/c04", map[string]any{"class": "finished-chunks-not-advertised", "via": via},
					fmt.Sprintf("%s: after [%s] the metadata on disk marks chunks %x of file id %s but the resumed run advertised %x", p.Case, hist, b, id, a), rp)
				break
			}
		}
	}
}

// replayC04 rebuilds the crash state from its history and runs the completion with the recorded choices.
func replayC04(p *Prepared, rp replayT) {
	var cr c04Replay
	vlib.FromJSON(rp.Extra, &cr)
	if cr.BuiltWithChunk != 0 {
		// the state was built by runs with another chunk size than the completion uses
		pb := *p
		pb.Case.Chunk = cr.BuiltWithChunk
		c04BuiltWith = cr.BuiltWithChunk
		replayC04With(&pb, p, rp, cr)
		return
	}
	replayC04With(p, p, rp, cr)
}

// replayC04With rebuilds the state with p and runs the completion with pfin.
func replayC04With(p, pfin *Prepared, rp replayT, cr c04Replay) {
	cur := &crashState{Hash: "empty"}
	for i, h := range cr.History {
		if strings.HasPrefix(h, "constructed:") {
			d := filepath.Join(scratch, fmt.Sprintf("replaystate%d", i))
			os.RemoveAll(d)
			os.MkdirAll(d, 0755)
			pc := *p
			pc.Case.Pre = strings.TrimPrefix(h, "constructed:")
			applyPre(&pc, d)
			cur = &crashState{Hash: hashDir(d), Dir: d, History: cr.History[:i+1]}
			continue
		}
		r := &c04Run{from: cur}
		var k int
		var pos int64
		if n, _ := fmt.Sscanf(h, "kill-receiver@fs%d", &k); n == 1 {
			r.kill = k
		} else if n, _ := fmt.Sscanf(h, "sigint-receiver@fs%d", &k); n == 1 {
			r.kill, r.abort = k, true
		} else if n, _ := fmt.Sscanf(h, "loss@byte%d", &pos); n == 1 {
			r.cutKind, r.cutPos = "loss", pos
		} else if n, _ := fmt.Sscanf(h, "peerclose@byte%d", &pos); n == 1 {
			r.cutKind, r.cutPos = "peerclose", pos
		}
		vrt.Run(c04Cfg(), nil, func() { runTransfer(p, c04Env(p, r)) })
		d := filepath.Join(scratch, fmt.Sprintf("replaystate%d", i))
		os.RemoveAll(d)
		if r.kill > 0 {
			os.Rename(r.snapDir, d)
		} else {
			copyTree(last.OutDir, d)
		}
		cur = &crashState{Hash: hashDir(d), Dir: d, History: cr.History[:i+1], Depth: i + 1}
	}
	r := &c04Run{from: cur}
	p = pfin
	bits := diskBits(p, cur.Dir)
	x, err := vrt.Replay(c04Cfg(), rp.Choices, func() { runTransfer(p, c04Env(p, r)) })
	if err != nil {
		res.InfraError("%v", err)
		return
	}
	res.Eval()
	fmt.Fprintf(os.Stderr, "replay c04: state %s after %v: outcome=%s send=%v recv=%v tree=%q\n", cur.Hash, cr.History, x.Outcome, last.SendErr, last.RecvErr, last.TreeDiff)
	checkC04(p, cur, bits, r, x, last)
}

// wireDump wraps an observer and records all bytes per stream direction (replay diagnostics).
type wireDump struct {
	inner quic.Observer
	log   map[string][]byte
	order []string
}

func (w *wireDump) StreamOpened(s *quic.Stream) {
	if w.inner != nil {
		w.inner.StreamOpened(s)
	}
}
func (w *wireDump) BeforeWrite(s *quic.Stream, p []byte) (int, quic.Fault) {
	k := streamKey(s)
	if w.log == nil {
		w.log = map[string][]byte{}
	}
	if _, ok := w.log[k]; !ok {
		w.order = append(w.order, k)
	}
	w.log[k] = append(w.log[k], p...)
	vrt.Emit("wire", k, len(p))
	if w.inner != nil {
		return w.inner.BeforeWrite(s, p)
	}
	return len(p), quic.NoFault
}

func (w *wireDump) print() {
	// diagnostic output only: never let a stream that is not what its key suggests break a replay
	defer func() { recover() }()
	for _, k := range w.order {
		b := w.log[k]
		if strings.HasSuffix(k, ":0") {
			fmt.Fprintf(os.Stderr, "  wire %s (%d bytes):\n", k, len(b))
			off := 0
			if strings.Contains(k, "/c:") && len(b) > 8 {
				l := int(b[4])<<24 | int(b[5])<<16 | int(b[6])<<8 | int(b[7])
				off = 8 + l
				if l < 0 || off > len(b) {
					fmt.Fprintf(os.Stderr, "    (not a control stream)\n")
					continue
				}
				fmt.Fprintf(os.Stderr, "    header+manifest %d bytes\n", off)
			}
			ms := memStream{bytes.NewReader(b[off:])}
			for {
				typ, msg, err := transfer.VerifReadControlMessage(ms)
				if err != nil {
					break
				}
				fmt.Fprintf(os.Stderr, "    0x%02x %+v\n", typ, msg)
			}
		} else {
			fmt.Fprintf(os.Stderr, "  wire %s (%d bytes): data frames", k, len(b))
			for off := 0; off+20 <= len(b); {
				l := int(b[off+12])<<24 | int(b[off+13])<<16 | int(b[off+14])<<8 | int(b[off+15])
				idx := int(b[off+8])<<24 | int(b[off+9])<<16 | int(b[off+10])<<8 | int(b[off+11])
				fmt.Fprintf(os.Stderr, " [chunk %d len %d]", idx, l)
				off += 20 + l
			}
			fmt.Fprintln(os.Stderr)
		}
	}
}
