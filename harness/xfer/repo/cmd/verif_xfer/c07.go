//go:build verif

package main

import (
	"context"
	"crypto/sha256"
	"fmt"
	"os"
	"path/filepath"
	"sort"
	"strings"
	"time"

	"github.com/sheerbytes/sheerbytes/internal/transfer"
	"github.com/sheerbytes/sheerbytes/internal/verif/vlib"
	vrt "github.com/sheerbytes/sheerbytes/internal/verif/vrt"
	"github.com/sheerbytes/sheerbytes/pkg/manifest"
)

// ---- C07: the receiver never touches anything outside its output directory ----
//
// A scripted sender speaks the wire format to the real RecvManifestMultiStream. The output
// directory sits 6 levels deep inside a scratch jail; no attack string climbs more than 4.

type Attack struct {
	Field     string `json:"field"` // root dir-relpath file-relpath item-id begin-relpath root+relpath root+id
	Value     string `json:"value"`
	Value2    string `json:"value2,omitempty"`
	NoRootDir bool   `json:"norootdir"`
	Resume    bool   `json:"resume"`
}

func (a Attack) String() string {
	return fmt.Sprintf("%s=%q/%q norootdir=%v resume=%v", a.Field, a.Value, a.Value2, a.NoRootDir, a.Resume)
}

func snapshotJail(jail string) map[string]string {
	out := map[string]string{}
	filepath.Walk(jail, func(q string, info os.FileInfo, err error) error {
		if err != nil {
			return nil
		}
		rel, _ := filepath.Rel(jail, q)
		if info.IsDir() {
			out[rel] = "dir"
			return nil
		}
		b, _ := os.ReadFile(q)
		h := sha256.Sum256(b)
		out[rel] = fmt.Sprintf("file %d %x", len(b), h[:6])
		return nil
	})
	return out
}

type c07Run struct {
	jail, outDir string
	before       map[string]string
	calls        []string // mutating fs calls outside the output directory
	recvErr      error
}

var c07cur *c07Run

func buildJail(jail string) string {
	os.RemoveAll(jail)
	p := jail
	for i := 1; i <= 5; i++ {
		p = filepath.Join(p, fmt.Sprintf("l%d", i))
		os.MkdirAll(p, 0755)
		os.WriteFile(filepath.Join(p, "victim.txt"), []byte("ORIGINAL"), 0644)
		os.MkdirAll(filepath.Join(p, "a"), 0755)
		os.WriteFile(filepath.Join(p, "a", "victim.txt"), []byte("ORIGINAL"), 0644)
		os.MkdirAll(filepath.Join(p, ".thruflux_resumedata"), 0755)
		os.WriteFile(filepath.Join(p, ".thruflux_resumedata", "victim.sbxmap"), []byte("ORIGINAL"), 0644)
	}
	out := filepath.Join(p, "out")
	os.MkdirAll(out, 0755)
	return out
}

func inside(dir, path string) bool {
	rel, err := filepath.Rel(dir, filepath.Clean(path))
	return err == nil && rel != ".." && !strings.HasPrefix(rel, "../")
}

func runAttack(a Attack) *c07Run {
	r := &c07Run{jail: filepath.Join(scratch, "jail")}
	c07cur = r
	r.outDir = buildJail(r.jail)
	r.before = snapshotJail(r.jail)
	vrt.FsHook = func(op, path, phase string) error {
		if phase != "pre" {
			return nil
		}
		ap := path
		if !filepath.IsAbs(ap) {
			ap = filepath.Join(r.outDir, ap) // the harness never changes directory; relative = cwd
			if cwd, err := os.Getwd(); err == nil {
				ap = filepath.Join(cwd, path)
			}
		}
		if resolved, err := filepath.EvalSymlinks(filepath.Dir(ap)); err == nil {
			ap = filepath.Join(resolved, filepath.Base(ap))
		}
		if !inside(r.outDir, ap) {
			if op == "mkdirall" || op == "mkdir" {
				if st, err := os.Stat(ap); err == nil && st.IsDir() {
					return nil // creating a directory that exists changes nothing
				}
			}
			r.calls = append(r.calls, op+" "+relTo(r.jail, ap))
		}
		return nil
	}
	// manifest
	root := "share"
	dirRel := "d"
	fileRel := "f.bin"
	id := "0123456789abcdef"
	beginRel := ""
	switch a.Field {
	case "root":
		root = a.Value
	case "dir-relpath":
		dirRel = a.Value
	case "file-relpath":
		fileRel = a.Value
	case "item-id":
		id = a.Value
	case "begin-relpath":
		beginRel = a.Value
	case "root+relpath":
		root, fileRel = a.Value, a.Value2
	case "root+id":
		root, id = a.Value, a.Value2
	case "root+dir":
		root, dirRel = a.Value, a.Value2
	}
	if beginRel == "" {
		beginRel = fileRel
	}
	data := []byte("PWNED-DATA")
	m := manifest.Manifest{Root: root, FileCount: 1, FolderCount: 1, TotalBytes: int64(len(data)), Items: []manifest.FileItem{
		{RelPath: dirRel, IsDir: true, ID: "dddddddddddddddd"},
		{RelPath: fileRel, Size: int64(len(data)), ID: id},
	}}
	key := fileKey(m.Items[1])
	cl, sv := newConnPair()
	var wg vrt.WaitGroup
	wg.Add(2)
	vrt.GoNamed("hostile-sender", "S", func() {
		defer wg.Done()
		ctx := context.Background()
		ctrl, ds, err := openStreams(ctx, cl, 1)
		if err != nil {
			return
		}
		ctrl.Write(encHeader(m))
		ctrl.Write(encDataStreams(1))
		ctrl.Write(encFileBegin(beginRel, uint64(len(data)), 4, key, 1))
		if a.Resume {
			ctrl.Write(encResumeRequest(id, key))
		}
		for i := 0; i*4 < len(data); i++ {
			hi := (i + 1) * 4
			if hi > len(data) {
				hi = len(data)
			}
			ds[0].Write(encChunk(key, uint32(i), data[i*4:hi]))
		}
		ctrl.Write(encFileEnd(key))
		ds[0].Close()
		ctrl.Write(encEnd())
		vrt.Sleep(2 * time.Second)
		ctrl.Close()
		cl.Close()
	})
	vrt.GoNamed("R", "R", func() {
		defer wg.Done()
		ctx, cancel := vrt.WithTimeout(context.Background(), 30*time.Second)
		defer cancel()
		_, r.recvErr = transfer.RecvManifestMultiStream(ctx, sv, r.outDir, transfer.Options{Resume: a.Resume, NoRootDir: a.NoRootDir, HashAlg: "crc32c", ParallelFiles: 1})
		sv.Close()
	})
	wg.Wait()
	return r
}

func relTo(base, p string) string {
	if r, err := filepath.Rel(base, p); err == nil {
		return r
	}
	return p
}

func checkC07(a Attack, x *vrt.Exec) {
	r := c07cur
	rp := replayT{Mode: "c07", Choices: append([]int{}, x.Choices()...), Extra: vlib.JSON(a)}
	after := snapshotJail(r.jail)
	outRel, _ := filepath.Rel(r.jail, r.outDir)
	var changed []string
	for k, v := range after {
		if k == outRel || strings.HasPrefix(k, outRel+"/") {
			continue
		}
		if b, ok := r.before[k]; !ok {
			changed = append(changed, "created "+k)
		} else if b != v {
			changed = append(changed, "modified "+k)
		}
	}
	for k := range r.before {
		if _, ok := after[k]; !ok {
			changed = append(changed, "deleted "+k)
		}
	}
	sort.Strings(changed)
	if len(changed) > 0 {
		res.Violate("escape", "xfer/c07", map[string]any{"field": a.Field, "effect": strings.SplitN(changed[0], " ", 2)[0], "norootdir": a.NoRootDir},
			fmt.Sprintf("hostile %s: outside the output directory: %s (receiver returned %v)", a, strings.Join(changed, ", "), r.recvErr), rp)
	} else if len(r.calls) > 0 {
		res.Violate("escape", "xfer/c07", map[string]any{"field": a.Field, "effect": "attempt:" + strings.SplitN(r.calls[0], " ", 2)[0], "norootdir": a.NoRootDir},
			fmt.Sprintf("hostile %s: file-system call aimed outside the output directory: %s (receiver returned %v)", a, strings.Join(r.calls, ", "), r.recvErr), rp)
	}
	if x.Outcome == "panic" {
		res.Violate("panic", "xfer/c07", map[string]any{"panic": x.Detail}, fmt.Sprintf("hostile %s: panic %s", a, x.Detail), rp)
	}
}

func pathAlphabet() []string {
	segs := []string{"a", "..", ".", "", "sub", "..a"}
	seen := map[string]bool{}
	var out []string
	add := func(s string) {
		if !seen[s] {
			seen[s] = true
			out = append(out, s)
		}
	}
	for _, sep := range []string{"/", "\\"} {
		for _, abs := range []string{"", sep} {
			for _, s1 := range segs {
				add(abs + s1)
				for _, s2 := range segs {
					add(abs + s1 + sep + s2)
					for _, s3 := range segs {
						add(abs + s1 + sep + s2 + sep + s3)
					}
				}
			}
		}
	}
	// decorated dot segments: what a normaliser applied after the validation (TrimSpace, Trim of
	// control bytes, a cut at NUL) would turn into a climbing segment
	for _, pad := range []string{" ", "\t", "\n", "\r\n", "\x00", "\u00a0", "\v"} {
		for _, d := range []string{"..", "."} {
			for _, v := range []string{pad + d, d + pad, pad + d + pad} {
				add(v)
				add(v + "/a")
				add("a/" + v)
				add(v + "/" + v)
				add(v + "/victim.txt")
			}
		}
	}
	add("../../..")
	add("../../../a")
	add("../../../../a")
	add("a/../../../victim.txt")
	return out
}

func modeC07() {
	res.Rule = "scripted hostile sender against the real receiver: for each of manifest.root, directory rel_path, file rel_path (manifest + FileBegin), item id and FileBegin.rel_path every string of a path alphabet (1-3 segments of {a,..,.,empty,sub,..a} joined by / or \\\\, relative and absolute, plus dot segments padded with blanks / control bytes / NUL / NBSP on either side, plus absolute paths into the jail), pairs root x rel_path / id / dir over a sub-alphabet, both root-directory modes, resume on and off; non-trivial = every run; distinct by attack"
	st := newStats()
	alpha := pathAlphabet()
	jailAbs := []string{filepath.Join(scratch, "jail", "l1", "victim.txt"), filepath.Join(scratch, "jail", "l1", "l2", "newdir", "x")}
	var attacks []Attack
	for _, f := range []string{"root", "dir-relpath", "file-relpath", "item-id", "begin-relpath"} {
		for _, v := range append(append([]string{}, alpha...), jailAbs...) {
			for _, nr := range []bool{true, false} {
				for _, rs := range []bool{false, true} {
					attacks = append(attacks, Attack{Field: f, Value: v, NoRootDir: nr, Resume: rs})
				}
			}
		}
	}
	sub := []string{"..", "../..", "a", "a/..", "../a", "", ".", "/", "..\\..", "sub/../.."}
	for _, f := range []string{"root+relpath", "root+id", "root+dir"} {
		for _, v1 := range sub {
			for _, v2 := range append(append([]string{}, sub...), "../victim.txt", "../../victim.txt", "a/victim.txt", "../a/victim.txt", "../victim", "../../victim") {
				for _, nr := range []bool{true, false} {
					attacks = append(attacks, Attack{Field: f, Value: v1, Value2: v2, NoRootDir: nr, Resume: true})
				}
			}
		}
	}
	cfg := baseCfg()
	for i, a := range attacks {
		if !vlib.Mine(i) {
			continue
		}
		a := a
		x := vrt.Run(cfg, nil, func() { runAttack(a) })
		st.execs++
		st.steps += int64(x.Steps())
		st.nodes += int64(x.NPoints()) + 1
		st.outcomes[x.Outcome]++
		res.Nontrivial(a.String())
		checkC07(a, x)
		res.SampleSpread(int64(i), a)
	}
	vrt.FsHook = nil
	st.cases = len(attacks)
	st.finish()
}
